"""C09 -- binary model files load back as the identical model.

Per generated model and writer option:
(i)  correspondence, encoder: the bytes `to_file()` produced == the bytes the Lean `…Encode` function
     produces from the model's content (offset / biases / lower triangles / varinfo read through the
     public API; the header JSON text is taken from the file as an opaque blob and its *parsed
     value* is compared with the header the content implies);
     correspondence, decoder: the Lean `…Decode` reader run on those bytes == the content of the
     model `from_file` returned;
(ii) property predicate (no Lean involved): the loaded model equals the original field by field
     (`filefmt.diff_models`): labels with their types and order, dtype, vartypes, bounds, offset,
     every bias, and for CQMs every constraint's label / terms / sense / rhs / weight / penalty /
     discrete mark -- for every loader entry point (bytes, bytearray, memoryview, file object,
     `fileview.load`) and every writer option (version, ignore_labels, compress, spool size).
"""
import io
import json
import os
import re
import zipfile

import numpy as np

import dimod
from dimod.serialization.fileview import load as fv_load

from harness.common import run_driver
from harness import filefmt as F


class Batch:
    """driver lines with what to compare their answers with"""

    def __init__(self):
        self.lines, self.expect, self.meta, self.post = [], [], [], {}

    def add(self, line, expect, site, input_class, what, repro, post=None):
        """`post`: normalisation applied to the model's answer before it is compared"""
        if post is not None:
            self.post[len(self.lines)] = post
        self.lines.append(line); self.expect.append(expect); self.meta.append((site, input_class, what, repro))


def repro_roundtrip(spec, kind, dump_kw, load_expr, relabelled=False, f64=False):
    return (F.PRELUDE + F.SAME_SRC + F.emit(spec) +
            f"data = m.to_file({dump_kw}).read()\n"
            f"new = {load_expr}\n"
            f"d = diff_models({kind!r}, m, new, relabelled={relabelled}, float64_copy={f64})\n"
            f"assert d is None, d\n")


LOADERS = {
    'from_file(bytes)': ('{cls}.from_file(data)', lambda cls, data: cls.from_file(data)),
    'from_file(bytearray)': ('{cls}.from_file(bytearray(data))', lambda cls, data: cls.from_file(bytearray(data))),
    'from_file(memoryview)': ('{cls}.from_file(memoryview(data))', lambda cls, data: cls.from_file(memoryview(data))),
    'from_file(BytesIO)': ('{cls}.from_file(io.BytesIO(data))', lambda cls, data: cls.from_file(io.BytesIO(data))),
    'fileview.load(bytes)': ('dimod.serialization.fileview.load(data)', lambda cls, data: fv_load(data)),
    'fileview.load(BytesIO)': ('dimod.serialization.fileview.load(io.BytesIO(data))', lambda cls, data: fv_load(io.BytesIO(data))),
}


def check_property(ctx, spec, model, kind, data, dump_kw, relabelled=False, which=None):
    """(ii): every loader gives back the original"""
    cls = F.cls_of(kind)
    f64 = kind == 'bqm' and spec.get('dtype') == 'object'
    results = []
    for name, (expr, fn) in LOADERS.items():
        if which is not None and name not in which:
            continue
        try:
            new = fn(cls, data)
        except Exception as e:  # noqa
            ctx.tick('property:raise')
            results.append((name, expr, f'loading the file just written raised {type(e).__name__}: {e}'))
            continue
        d = F.diff_models(kind, model, new, relabelled=relabelled, float64_copy=f64)
        ctx.tick('property:ok' if d is None else 'property:DIFF')
        results.append((name, expr, None if d is None else f'loaded model differs from the original: {d}'))
    bad = [x for x in results if x[2] is not None]
    if not bad:
        return
    ic = input_class(spec, dump_kw)
    if any('bounds' in x[2] for x in bad) and spec.get('vartypes'):
        ic = f"{spec['kind']}: {bounds_class(spec)}"        # the field that differs is not in the header: name the class of bounds
    if len(bad) == len(results) and len(set(x[2] for x in bad)) == 1:
        # every entry point fails the same way: one finding, reported at the writer/loader pair
        name, expr, what = bad[0]
        ctx.fail('property', f'{cls.__name__}.to_file/from_file', ic, what,
                 repro=repro_roundtrip(spec, kind, dump_kw, expr.format(cls=F.CLS[kind]), relabelled, f64), detail=dict(spec=spec))
    else:
        for name, expr, what in bad:
            ctx.fail('property', f'{cls.__name__}.to_file/{name}', ic, what,
                     repro=repro_roundtrip(spec, kind, dump_kw, expr.format(cls=F.CLS[kind]), relabelled, f64), detail=dict(spec=spec))


def wire_hdr(hv):
    """a parsed BQM / QM / expression header dictionary in the driver's `showHeaderDict` form"""
    v = hv.get('variables', False)
    if isinstance(v, list):
        vs = '[' + '+'.join(F.wire_label(dimod.variables.deserialize_variable(x)) for x in v) + ']'
    else:
        vs = 'T' if v else 'F'
    return (f"shape={hv['shape'][0]},{hv['shape'][1]} dtype={hv['dtype']} itype={hv['itype']} ntype={hv.get('ntype', '-')} "
            f"vartype={hv.get('vartype', '-')} type={hv['type']} variables={vs}")


def wire_labels(variables):
    return ';'.join(F.wire_label(v) for v in variables) or '-'


def label_class(labels):
    cl = set()
    for l in labels:
        s = json.dumps(dimod.variables.serialize_variable(l))
        if '/' in s:
            cl.add("'/' in label")
        elif isinstance(l, tuple):
            cl.add('tuple label')
        elif isinstance(l, float):
            cl.add('float label')
        elif isinstance(l, str):
            cl.add('str label')
    for c in ("'/' in label", 'tuple label', 'float label', 'str label'):
        if c in cl:
            return c
    return 'int labels'


def bounds_class(spec):
    """the most unusual kind of variable bounds in a QM / CQM spec (round 8: fields the header does not cover)"""
    cl = set()
    reb = {i for i, _, _ in spec.get('rebounds', [])}
    for i, (vt, lb, ub) in enumerate(spec['vartypes']):
        if vt not in ('INTEGER', 'REAL'):
            continue
        if i in reb:
            cl.add('bounds changed by set_lower_bound / set_upper_bound')
        if lb is None or ub is None:
            cl.add('a bound left to its default')
        vals = [x for x in (lb, ub) if x is not None]
        if vt == 'INTEGER' and any(x != int(x) for x in vals):
            cl.add('INTEGER variable with non-integral bounds')
        elif any(abs(x) >= 2 ** 24 - 1 for x in vals):
            cl.add(f'{vt} variable with a bound at the edge of the supported range')
        elif vt == 'REAL' and (lb == ub or any(x < 0 for x in vals)):
            cl.add('REAL variable with negative or equal bounds')
    for c in ('INTEGER variable with non-integral bounds', 'bounds changed by set_lower_bound / set_upper_bound',
              'INTEGER variable with a bound at the edge of the supported range', 'REAL variable with a bound at the edge of the supported range',
              'a bound left to its default', 'REAL variable with negative or equal bounds'):
        if c in cl:
            return c
    return 'plain bounds'


def input_class(spec, dump_kw):
    if spec['kind'] == 'cqm':
        c = label_class([c['label'] for c in spec['constraints']] + [d['label'] for d in spec['discrete']])
        if c == "'/' in label":
            return "constraint label containing '/'"
    large = ' with 65535 or more cases in total' if 'linear_sparse' in spec else ''
    real = ' built under REAL_INTERACTIONS (squared REAL terms)' if spec.get('real_interactions') else ''
    return f"{spec['kind']}{large}{real} {label_class(spec['labels'])} {dump_kw or 'defaults'}"


# ------------------------------------------------------------------ per kind

def bqm_case(ctx, r, B, spec):
    m0 = F.build(spec)
    # "BQMs with the object data type are serialized as float64": the content that is written is the float64 copy's
    # (its Variables object stores a label equal to its own index implicitly: the float 2.0 at position 2 is the int 2)
    m = dimod.BinaryQuadraticModel(m0, dtype=np.float64) if m0.dtype == np.dtype(object) else m0
    n = m.num_variables
    for ver in (1, 2):
        for ign in (False, True):
            kw = f'version={ver}, ignore_labels={ign}'
            data = m0.to_file(version=ver, ignore_labels=ign).read()
            if m0.to_file(version=ver, ignore_labels=ign, spool_size=0).read() != data:
                ctx.fail('property', 'BinaryQuadraticModel.to_file', 'spool_size=0', 'bytes depend on spool_size',
                         repro=F.PRELUDE + F.emit(spec) + f"assert m.to_file({kw}).read() == m.to_file({kw}, spool_size=0).read()\n")
            ctx.case(('bqm', repr(spec), kw), nontrivial=True,
                     sample=dict(kind='bqm', options=kw, source=F.emit(spec), nbytes=len(data)) if r.random() < .02 else None)
            ctx.tick(f'bqm v{ver} ' + ('ignore_labels' if ign else 'labels'))
            if r.random() < .35:
                # round 8 (anchor coverage): the deprecated public entry point `fileview.FileView` and `readinto` of the file
                # object `to_file` returns must give the very bytes of `to_file`
                import warnings
                from dimod.serialization.fileview import FileView
                with warnings.catch_warnings():
                    warnings.simplefilter('ignore')
                    fvd = FileView(m0, version=ver, ignore_labels=ign)
                buf, got = bytearray(max(1, len(data) // 3 + 1)), b''
                while True:
                    nread = fvd.readinto(buf)
                    if not nread:
                        break
                    got += bytes(buf[:nread])
                ctx.tick('bqm FileView + readinto')
                if got != data or not (fvd.readable() and fvd.seekable()):
                    ctx.fail('property', 'fileview.FileView', f'bqm v{ver} readinto', 'FileView(bqm) read through readinto does not give the bytes of to_file',
                             repro=F.PRELUDE + F.emit(spec) + "import warnings\nfrom dimod.serialization.fileview import FileView\n"
                             f"with warnings.catch_warnings():\n    warnings.simplefilter('ignore')\n    f = FileView(m, version={ver}, ignore_labels={ign})\n"
                             f"buf = bytearray(1 << 20)\nn = f.readinto(buf)\nassert bytes(buf[:n]) == m.to_file({kw}).read()\n")
            check_property(ctx, spec, m0, 'bqm', data, kw, relabelled=ign,
                           which=None if r.random() < .25 else ['from_file(bytes)', 'fileview.load(BytesIO)'])
            # (i) correspondence
            pre, fver, text, hend = F.split_header(data)
            hv = json.loads(text)
            dt = np.dtype(np.float64) if m.dtype == np.dtype(object) else m.dtype
            is_range = list(m.variables) == list(range(n))
            want = dict(shape=[n, m.num_interactions], dtype=dt.name, itype='int32', ntype='int32', vartype=m.vartype.name,
                        type='BinaryQuadraticModel')
            if ver == 1:
                want['variables'] = list(range(n)) if ign else json.loads(F.vars_text(m.variables))
                vf = f'L{n}'
            else:
                want['variables'] = (not ign) and not is_range
                vf = 'T' if want['variables'] else 'F'
            site = 'BinaryQuadraticModel.to_file vs bqmEncode'
            ic = input_class(spec, kw)
            rp = F.PRELUDE + F.emit(spec)
            if hv != want or pre != b'DIMODBQM' or fver != (ver, 0):
                ctx.fail('correspondence', site, ic, f'header value {hv!r} (version {fver}) is not the one the model content implies {want!r}',
                         detail=dict(source=rp))
                continue
            H = F.wire_H(n, m.num_interactions, dt.itemsize, vf, vartype=0 if m.vartype is dimod.SPIN else 1)
            off, lin, low = F.content_qm(m)
            vt = F.hx(F.vars_text(m.variables))
            B.add(f'hdrbqm {ver} {int(ign)} {0 if m.vartype is dimod.SPIN else 1} {dt.itemsize} 4 {lin} {low} {wire_labels(m.variables)}',
                  wire_hdr(hv), 'BinaryQuadraticModel.to_file header dict vs bqmHeaderDict', ic, 'header dictionary (values)', rp)
            B.add(f'hdrtextbqm {ver} {int(ign)} {0 if m.vartype is dimod.SPIN else 1} {dt.itemsize} 4 {lin} {low} {wire_labels(m.variables)}',
                  F.hx(text), 'BinaryQuadraticModel.to_file header text vs dumpsDict', ic, 'header JSON text', rp)
            B.add(f'parsehdr bqm {F.hx(text)}', H, 'read_header + field extraction vs parseBqmHeader', ic, 'header fields parsed from the text', rp)
            B.add(f'encbqm {ver} {F.hx(text)} {H} {off} {lin} {low} {vt}', F.hx(data), site, ic, 'encoded bytes', rp)
            new = dimod.BQM.from_file(data)
            off2, lin2, low2 = F.content_qm(new)
            nl = n if (ver == 1 and n) or (ver == 2 and want['variables']) else 'none'
            B.add(f'decbqm full {F.hx(text)} {H} {vt} {n} {F.hx(data)}',
                  f'ok off={off2} lin={lin2} low={low2} labels={nl} rest=0', 'BinaryQuadraticModel.from_file vs bqmDecode', ic,
                  'decoded content', rp)


def qm_case(ctx, r, B, spec):
    m = F.build(spec)
    n = m.num_variables
    data = m.to_file().read()
    kw = ''
    if m.to_file(spool_size=0).read() != data:
        ctx.fail('property', 'QuadraticModel.to_file', 'spool_size=0', 'bytes depend on spool_size',
                 repro=F.PRELUDE + F.emit(spec) + "assert m.to_file().read() == m.to_file(spool_size=0).read()\n")
    ctx.case(('qm', repr(spec)), nontrivial=True,
             sample=dict(kind='qm', source=F.emit(spec), nbytes=len(data)) if r.random() < .03 else None)
    ctx.tick('qm ' + ('labelled' if list(m.variables) != list(range(n)) else 'range'))
    ctx.tick(f'qm bounds: {bounds_class(spec)} ({spec["dtype"]})')
    if spec.get('real_interactions'):
        vts = [vt for vt, _, _ in spec['vartypes']]
        sq = sum(1 for i, j, _ in spec['quad'] if i == j and vts[i] == 'REAL')
        rr = any(i != j and vts[i] == 'REAL' and vts[j] == 'REAL' for i, j, _ in spec['quad'])
        ro = any((vts[i] == 'REAL') != (vts[j] == 'REAL') for i, j, _ in spec['quad'])
        ctx.tick(f"qm built under REAL_INTERACTIONS: {'one squared REAL term' if sq == 1 else 'several squared REAL terms'}"
                 f"{', REAL-REAL interaction' if rr else ''}{', REAL-other interaction' if ro else ''}")
    check_property(ctx, spec, m, 'qm', data, kw, which=None if r.random() < .25 else ['from_file(bytes)', 'fileview.load(BytesIO)'])
    pre, fver, text, hend = F.split_header(data)
    hv = json.loads(text)
    is_range = list(m.variables) == list(range(n))
    want = dict(shape=[n, m.num_interactions], dtype=m.dtype.name, itype='int32', type='QuadraticModel', variables=not is_range)
    site = 'QuadraticModel.to_file vs qmEncode'
    ic = input_class(spec, kw)
    rp = F.PRELUDE + F.emit(spec)
    if hv != want or pre != b'DIMODQM' or fver != (1, 0):
        ctx.fail('correspondence', site, ic, f'header value {hv!r} (version {fver}) is not the one the model content implies {want!r}',
                 detail=dict(source=rp))
        return
    H = F.wire_H(n, m.num_interactions, m.dtype.itemsize, 'F' if is_range else 'T')
    off, lin, low = F.content_qm(m)
    vi = F.content_varinfo(m, m.dtype)
    vt = F.hx(F.vars_text(m.variables))
    B.add(f'hdrqm {m.dtype.itemsize} 4 {lin} {low} {wire_labels(m.variables)}', wire_hdr(hv),
          'QuadraticModel.to_file header dict vs qmHeaderDict', ic, 'header dictionary (values)', rp)
    B.add(f'hdrtextqm {m.dtype.itemsize} 4 {lin} {low} {wire_labels(m.variables)}', F.hx(text),
          'QuadraticModel.to_file header text vs dumpsDict', ic, 'header JSON text', rp)
    B.add(f'parsehdr qm {F.hx(text)}', H, 'read_header + field extraction vs parseQmHeader', ic, 'header fields parsed from the text', rp)
    for kcut in sorted(set(r.sample(range(len(text)), min(4, len(text))))):
        B.add(f'parsehdr qm {F.hx(text[:kcut])}', 'none', 'json.loads vs loadsDict', 'proper prefix of a header text', 'prefix rejected', rp)
    B.add(f'encqm {F.hx(text)} {H} {vi} {off} {lin} {low} {vt}', F.hx(data), site, ic, 'encoded bytes', rp)
    new = dimod.QM.from_file(data)
    off2, lin2, low2 = F.content_qm(new)
    B.add(f'decqm full {F.hx(text)} {H} {vt} {n} {F.hx(data)}',
          f'ok vi={F.content_varinfo(new, new.dtype)} off={off2} lin={lin2} low={low2} labels={"none" if is_range else n} rest=0',
          'QuadraticModel.from_file vs qmDecode', ic, 'decoded content', rp)


CON_RE = re.compile("constraints/([^/]+)/")


def expr_header_H(text):
    hv = json.loads(text)
    return hv, F.wire_H(hv['shape'][0], hv['shape'][1], np.dtype(hv['dtype']).itemsize, 'F', isize=np.dtype(hv['itype']).itemsize)


def cqm_counts(hv):
    return ','.join(str(hv[k]) for k in ('num_variables', 'num_constraints', 'num_biases', 'num_quadratic_variables',
                                         'num_quadratic_variables_real', 'num_linear_biases_real', 'num_weighted_constraints'))


def archive_of(data, hend):
    zf = zipfile.ZipFile(io.BytesIO(data[hend:]))
    return [(name, zf.read(name)) for name in zf.namelist()]


def wire_constraint_loaded(lstr, comp, variables):
    lhs = comp.lhs
    soft = '-'
    if lhs.is_soft():
        soft = F.hx(F.fbytes(lhs.weight(), np.float64)) + ':' + F.hx(lhs.penalty().encode('ascii'))
    return '~'.join([F.hx(lstr.encode()), F.content_expr(lhs, variables), F.hx(F.fbytes(comp.rhs, np.float64)),
                     F.hx(comp.sense.value.encode('ascii')), '1' if lhs.is_discrete() else '0', soft])


def cqm_case(ctx, r, B, spec):
    m = F.build(spec)
    variables = list(m.variables)
    ctx.tick(f'cqm bounds: {bounds_class(spec)}')
    for c in spec['constraints']:
        if c['soft'] is not None:
            ctx.tick(f"cqm soft constraint: weight {'dyadic' if c['soft'][0] in (0.5, 2.0, 3.25) else 'unusual'}, penalty {c['soft'][1]}")
    for compress in (False, True):
        kw = f'compress={compress}'
        try:
            data = m.to_file(compress=compress).read()
        except Exception as e:  # noqa
            ctx.fail('property', 'ConstrainedQuadraticModel.to_file', input_class(spec, kw), f'to_file raised {type(e).__name__}: {e}',
                     repro=F.PRELUDE + F.emit(spec) + f"m.to_file({kw})\n")
            continue
        ctx.case(('cqm', repr(spec), kw), nontrivial=True,
                 sample=dict(kind='cqm', options=kw, source=F.emit(spec), nbytes=len(data)) if r.random() < .05 else None)
        ctx.tick(f'cqm {kw}')
        nf = ctx.nfail()
        check_property(ctx, spec, m, 'cqm', data, kw, which=None if r.random() < .25 else ['from_file(bytes)', 'fileview.load(BytesIO)'])
        # spool_size: the archive carries time stamps, so bytes of two writes are not comparable; the file written
        # with spool_size=0 (on disk) must load back all the same
        if r.random() < .3:
            check_property(ctx, spec, m, 'cqm', m.to_file(compress=compress, spool_size=0).read(), kw + ', spool_size=0',
                           which=['from_file(bytes)'])
        # (i) correspondence on the archive members
        pre, fver, text, hend = F.split_header(data)
        hv = json.loads(text)
        ic = input_class(spec, kw)
        rp = F.PRELUDE + F.emit(spec)
        members = archive_of(data, hend)
        md = dict(members)
        site = 'ConstrainedQuadraticModel.to_file vs cqmMembers'
        if pre != b'DIMODCQM' or fver != (2, 0):
            ctx.fail('correspondence', site, ic, f'prefix/version {pre!r} {fver}', detail=dict(source=rp)); continue
        # header bytes themselves
        B.add(f'mkhdr {F.hx(pre)} 2 0 {F.hx(text)}', F.hx(data[:hend]), 'make_header vs makeHeader', ic, 'header bytes', rp)
        B.add(f'hdrtextcqm {cqm_counts(hv)}', F.hx(text), 'ConstrainedQuadraticModel.to_file header text vs dumpsDict(cqmCountsDict)', ic,
              'header JSON text', rp)
        B.add(f'parsecnt cqm {F.hx(text)}', cqm_counts(hv), 'read_header + header use vs parseCqmHeader', ic, 'header counts parsed from the text', rp)
        eocd_case(ctx, B, data, 'ConstrainedQuadraticModel.from_file', ic, rp)
        # round 8: the two side conditions of C10.truncation_safe_cqm_tiled that concern names, not payload, on every file:
        # the aligned header holds no end-record signature, the last member's name holds no byte 0x06
        ctx.tick('C10.truncation_safe_cqm_tiled side conditions (header without PK\\x05\\x06, last member name without 0x06): ' +
                 ('hold' if SIG not in data[:hend] and members and 6 not in members[-1][0].encode() else 'DO NOT HOLD'))
        zip_case(ctx, B, data, hend, 'ConstrainedQuadraticModel.to_file', ic, rp)
        is_range = variables == list(range(len(variables)))
        lt = 'none' if is_range else F.hx(json.dumps(m.variables.to_serializable()).encode())
        vi = F.content_varinfo(m, np.float64)
        otext = F.split_header(md['objective'])[2] if 'objective' in md else b''
        cons = []
        for label, comp in m.constraints.items():
            lstr_json = json.dumps(dimod.variables.serialize_variable(label))
            # the member the writer produced for this constraint (directory = JSON text, '/' possibly escaped)
            lhs_name = next((nm for nm in (f'constraints/{lstr_json}/lhs', 'constraints/' + lstr_json.replace('/', '\\u002f') + '/lhs')
                             if nm in md), None)
            htext = F.split_header(md[lhs_name])[2] if lhs_name else b''
            lhs = comp.lhs
            soft = '-'
            if lhs.is_soft():
                soft = F.hx(F.fbytes(lhs.weight(), np.float64)) + ':' + F.hx(lhs.penalty().encode('ascii'))
            cons.append('~'.join([F.wire_label(label), F.hx(htext), F.content_expr(lhs, variables), F.hx(F.fbytes(comp.rhs, np.float64)),
                                  F.hx(comp.sense.value.encode('ascii')), '1' if lhs.is_discrete() else '0', soft]))
        want_members = ','.join(F.hx(nm.encode()) + '=' + F.hx(b) for nm, b in members) or '-'
        B.add(f'enccqm 4 {vi} {lt} {F.hx(otext)} {F.content_expr(m.objective, variables)} {"^".join(cons) or "-"}',
              want_members, site, ic, 'archive members (names, order, bytes)', rp)
        # decoder
        if ctx.nfail() != nf:
            continue   # the real loader already failed on this file; nothing to compare the decoder with
        new = dimod.CQM.from_file(data)
        dirs = []
        for nm, _ in members:
            mt = CON_RE.match(nm)
            if mt and mt.group(1) not in dirs:
                dirs.append(mt.group(1))
        okd = []
        for d in dirs:
            try:
                json.loads(d); okd.append(1)
            except ValueError:
                okd.append(0)
        table = {}
        for nm, b in members:
            if nm == 'objective' or nm.endswith('/lhs'):
                t = F.split_header(b)[2]
                table[t] = expr_header_H(t)[1]
        oracle = ';'.join(F.hx(t) + '=' + h for t, h in table.items())
        newvars = list(range(len(variables)))   # expressions are loaded before the relabelling
        cons2 = []
        for d in dirs:
            label = dimod.variables.deserialize_variable(json.loads(d))
            cons2.append(wire_constraint_loaded(d, new.constraints[label], list(new.variables)))
        exp = ('dirs=' + (','.join(F.hx(d.encode()) for d in dirs) or '-') + ' ok vi=' + F.content_varinfo(new, np.float64) +
               ' labels=' + lt + ' obj=' + F.content_expr(new.objective, list(new.variables)) + ' cons=' + ('^'.join(cons2) or '-'))
        B.add(f'deccqm 8 {cqm_counts(hv)} {oracle} {",".join(F.hx(d.encode()) + ":" + str(o) for d, o in zip(dirs, okd)) or "-"} {want_members}',
              exp, 'ConstrainedQuadraticModel.from_file vs cqmDecodeChecked', ic, 'decoded content', rp)
        # expressions on their own (objective member)
        if 'objective' in md:
            hvx, Hx = expr_header_H(otext)
            B.add(f'hdrtextexpr {hvx["type"]} 8 4 {F.content_expr(m.objective, variables)}', F.hx(otext),
                  '_cyExpression._into_file header text vs dumpsDict', ic, 'header JSON text', rp)
            B.add(f'parsehdr expr {F.hx(otext)}', Hx, 'read_header + field extraction vs parseExprHeader', ic, 'header fields parsed from the text', rp)
            B.add(f'hdrexpr {hvx["type"]} 8 4 {F.content_expr(m.objective, variables)}', wire_hdr(hvx),
                  '_cyExpression._into_file header dict vs exprHeaderDict', ic, 'header dictionary (values)', rp)
            B.add(f'decexpr full {F.hx(otext)} {Hx} {F.hx(md["objective"])}',
                  'ok ' + F.content_expr(m.objective, variables) + ' rest=0', '_cyExpression._into_file vs exprDecode', ic, 'expression member', rp)


def dqm_case(ctx, r, B, spec, combos=None):
    m = F.build(spec)
    n = m.num_variables()
    for compress in (False, True):
        for ign in (False, True):
            if combos is not None and (compress, ign) not in combos:
                continue
            kw = f'compress={compress}, ignore_labels={ign}'
            data = m.to_file(compress=compress, ignore_labels=ign, spool_size=r.choice([0, int(1e9)])).read()
            ctx.case(('dqm', repr(spec), kw), nontrivial=True,
                     sample=dict(kind='dqm', options=kw, source=F.emit(spec), nbytes=len(data)) if r.random() < .03 else None)
            ctx.tick(f'dqm {kw}')
            check_property(ctx, spec, m, 'dqm', data, kw, relabelled=ign,
                           which=None if r.random() < .25 else ['from_file(bytes)', 'fileview.load(BytesIO)'])
            pre, fver, text, hend = F.split_header(data)
            hv = json.loads(text)
            is_range = list(m.variables) == list(range(n))
            want = dict(num_variables=n, num_cases=m.num_cases(), num_case_interactions=m.num_case_interactions(),
                        num_variable_interactions=m.num_variable_interactions(), variables=not (ign or is_range))
            ic = input_class(spec, kw)
            rp = F.PRELUDE + F.emit(spec)
            if hv != want or pre != b'DIMODDQM' or fver != (1, 1) or data[hend:hend + 4] != b'BIAS':
                ctx.fail('correspondence', 'DiscreteQuadraticModel.to_file vs dqmEncode', ic,
                         f'header value {hv!r} (version {fver}) is not the one the model implies {want!r}', detail=dict(source=rp))
                continue
            ln = int.from_bytes(data[hend + 4:hend + 8], 'little')
            npz = data[hend + 8:hend + 8 + ln]
            # the arrays inside the npz blob and the header numbers, from the model's content
            members = F.wire_members(F.npz_members(npz))
            counts = f"{hv['num_variables']},{hv['num_cases']},{hv['num_case_interactions']},{hv['num_variable_interactions']}"
            B.add(f'encdqmm {F.content_dqm(m)}', members + ' counts=' + counts, 'DiscreteQuadraticModel._to_file_numpy vs dqmMembers', ic,
                  'npz arrays (names, order, dtypes, shapes, payloads) and header counts', rp)
            new = dimod.DQM.from_file(data)
            B.add(f'decdqmm {members}', 'ok ' + F.content_dqm(new), 'DiscreteQuadraticModel.from_numpy_vectors vs dqmFromMembers', ic,
                  'content rebuilt from the arrays', rp)
            B.add(f'hdrtextdqm {counts} {"T" if hv["variables"] else "F"}', F.hx(text),
                  'DiscreteQuadraticModel.to_file header text vs dumpsDict(dqmCountsDict)', ic, 'header JSON text', rp)
            B.add(f'parsecnt dqm {F.hx(text)}', ('T' if hv['variables'] else 'F') + ' keys=5', 'read_header + header use vs parseDqmHeader', ic,
                  'variables flag parsed from the text', rp)
            eocd_case(ctx, B, npz, 'DiscreteQuadraticModel.from_file (npz blob)', ic, rp)
            if len(npz) <= 40000:
                zip_case(ctx, B, npz, 0, 'np.savez (DQM blob)', ic, rp, base=hend + 8)
                npy_case(ctx, B, npz, 'DQM blob', ic, rp)
            eocd_case(ctx, B, data, 'DiscreteQuadraticModel.from_file (whole file)', ic, rp)
            vt = F.hx(F.vars_text(m.variables))
            lab = '1' if want['variables'] else '0'
            B.add(f'hdrdqm {int(ign)} {wire_labels(m.variables)}', 'T' if hv['variables'] else 'F',
                  'DiscreteQuadraticModel.to_file variables flag vs dqmVariablesFlag', ic, 'header flag', rp)
            B.add(f'encdqm {F.hx(text)} {lab} {F.hx(npz)} {vt}', F.hx(data), 'DiscreteQuadraticModel.to_file vs dqmEncode', ic,
                  'framing bytes around the npz blob', rp)
            B.add(f'decdqm full {F.hx(text)} {lab} {vt} {n} {ln} {n} {F.hx(data)}',
                  f'ok npz={ln} labels={n if want["variables"] else "none"} rest=0', 'DiscreteQuadraticModel.from_file vs dqmDecode', ic,
                  'decoded framing', rp)


# ------------------------------------------------------------------ labels, paths, headers, sections

def end_rec(data):
    """zipfile._EndRecData on these bytes -> the model's answer format"""
    rec = zipfile._EndRecData(io.BytesIO(data))
    if rec is None:
        return 'none'
    return f'{rec[zipfile._ECD_LOCATION]},{rec[zipfile._ECD_SIZE]},{rec[zipfile._ECD_OFFSET]},{rec[zipfile._ECD_ENTRIES_TOTAL]}'


SIG = b'PK\x05\x06'


def eocd_case(ctx, B, data, site, ic, rp):
    """the end-of-central-directory search of zipfile vs endRecData, and the side condition of the prefix theorem"""
    B.add(f'eocd {F.hx(data)}', end_rec(data), 'zipfile._EndRecData vs endRecData', ic, f'end record of {site}', rp)
    ctx.tick('eocd: signature only in the end record' if data.find(SIG) == data.rfind(SIG) else 'eocd: signature also inside the payload')


def dqm_long_vars_case(ctx, r, B):
    """DQM files whose VARS section is longer than the 64 KiB window zipfile searches for the end record"""
    site = 'DiscreteQuadraticModel.to_file/from_file'
    for n, width in ((r.randrange(2300, 2700), 30), (r.randrange(9000, 9500), 4)):
        for compress, ign in ((False, False), (True, False), (False, True)):
            kw = f'compress={compress}, ignore_labels={ign}'
            v0, v1 = 'v' * width + '0', 'v' * width + '1'
            src = (f"m = dimod.DiscreteQuadraticModel()\nfor i in range({n}):\n    m.add_variable(2, label='v' * {width} + str(i))\n"
                   f"m.set_linear_case({v0!r}, 1, 1.5)\nm.set_quadratic_case({v0!r}, 1, {v1!r}, 0, -0.25)\n")
            env = {}
            exec(F.PRELUDE + src, env)
            m = env['m']
            data = m.to_file(compress=compress, ignore_labels=ign).read()
            pre, fver, text, hend = F.split_header(data)
            hv = json.loads(text)
            ln = int.from_bytes(data[hend + 4:hend + 8], 'little')
            tail = len(data) - (hend + 8 + ln)
            ic = 'VARS section longer than 64 KiB' if tail >= 65536 + 22 else 'index-labelled, many variables'
            ctx.case(('dqm-long-vars', n, width, kw), nontrivial=True)
            ctx.tick(f'dqm long VARS: {ic}')
            rp = (F.PRELUDE + src + f"new = dimod.DiscreteQuadraticModel.from_file(m.to_file({kw}))\n"
                  + ("assert list(new.variables) == list(range(m.num_variables()))\n" if ign else "assert list(new.variables) == list(m.variables)\n")
                  + "import numpy as np\nfor a, b in zip(new.to_numpy_vectors(return_offset=True)[:2], m.to_numpy_vectors(return_offset=True)[:2]):\n"
                    "    assert np.array_equal(a, b)\n")
            try:
                new = dimod.DiscreteQuadraticModel.from_file(data)
            except Exception as e:  # noqa
                got = 'err ' + F.classify(e)
                ctx.fail('property', site, ic, f'{n} variables with {width + 4}-character labels ({len(data)} bytes, {tail} after the npz blob), {kw}: '
                         f'from_file(to_file(dqm)) raised {type(e).__name__}: {e}', repro=rp)
            else:
                want_vars = list(range(n)) if ign else list(m.variables)
                a, b = new.to_numpy_vectors(return_offset=True), m.to_numpy_vectors(return_offset=True)
                same = (list(new.variables) == want_vars and np.array_equal(a.case_starts, b.case_starts)
                        and np.array_equal(a.linear_biases, b.linear_biases) and all(np.array_equal(x, y) for x, y in zip(a.quadratic, b.quadratic))
                        and a.offset == b.offset)
                got = f'ok members=6 labels={n if hv["variables"] else "none"}'
                if not same:
                    ctx.fail('property', site, ic, f'{n} variables, {kw}: the loaded DQM differs from the original', repro=rp)
            lab = '1' if hv['variables'] else '0'
            vt = F.hx(F.vars_text(m.variables))
            B.add(f'dqmz {F.hx(text)} {lab} {vt} {n} {F.hx(data)}', got, 'DiscreteQuadraticModel.from_file vs dqmLoad', ic,
                  'outcome of loading the complete file', rp)


def label_cases(ctx, r, B):
    labels = list(F.LABEL_POOL) + [('a/b', ('c/d', 1)), 'x\\u002fy', '\\', '"', 'tab\there', 'nul\x00', '\x7f', 'ሴ', ('/',), -12345678901234567890]
    for l in labels:
        ser = dimod.variables.serialize_variable(l)
        text = json.dumps(ser)
        ctx.case(('label', repr(l)), nontrivial=True)
        ctx.tick('label')
        rp = F.PRELUDE + f"l = {l!r}\ns = json.dumps(dimod.variables.serialize_variable(l))\n"
        B.add(f'labeltext 0 {F.wire_label(l)}', F.hx(text.encode()), 'json.dumps(serialize_variable) vs dumpsJ', 'label ' + type(l).__name__,
              'JSON text of a label', rp)
        back = dimod.variables.deserialize_variable(json.loads(text))
        if F.typed(back) != F.typed(l):
            ctx.fail('property', 'serialize_variable/deserialize_variable', 'label ' + type(l).__name__,
                     f'{l!r} comes back as {back!r}', repro=rp + "assert dimod.variables.deserialize_variable(json.loads(s)) == l\n")
        B.add(f'roundlabel {F.wire_label(l)}', F.wire_label(back), 'deserialize_variable vs deserializeLabel', 'label ' + type(l).__name__,
              'label after the JSON-value round trip', rp)
        if isinstance(l, str):
            for text2 in (text, text.replace('/', '\\u002f')):
                B.add(f'loadsstr {F.hx(text2.encode())}', F.hx(json.loads(text2).encode('utf-8', 'surrogatepass')),
                      'json.loads vs loadsStr', 'label str', 'string literal scanned back', rp)
        # path split
        for text2 in (text, text.replace('/', '\\u002f')):
            path = f'constraints/{text2}/lhs'
            mt = CON_RE.match(path)
            B.add(f'matchpath {F.hx(path.encode())}', F.hx(mt.group(1).encode()) if mt else 'none', 're.match vs matchConstraint',
                  'path', 'constraint directory split', rp)
    for path in ('constraints//lhs', 'constraints/a', 'constraint/a/lhs', 'objective', 'constraints/a/b/c', 'xconstraints/a/b'):
        mt = CON_RE.match(path)
        B.add(f'matchpath {F.hx(path.encode())}', F.hx(mt.group(1).encode()) if mt else 'none', 're.match vs matchConstraint', 'path',
              'constraint directory split', '')


def wire_json(v):
    """a value `json.loads` returned, in the driver's form (floats by the text json.dumps writes for them)"""
    if isinstance(v, bool) or v is None or isinstance(v, dict):
        raise TypeError
    if isinstance(v, int):
        return f'i:{v}'
    if isinstance(v, float):
        return 'f:' + json.dumps(v).encode().hex()
    if isinstance(v, str):
        return 's:' + (v.encode('utf-8', 'surrogatepass').hex() or '-')
    return 'a:[' + '+'.join(wire_json(x) for x in v) + ']'


JSON_TEXTS = ['0', '-0', '7', '-12', '01', '1.', '1.5', '-0.25', '1e5', '1E5', '1e+16', '1.5e-07', '1e', '1e+', '-', '--1', '+1', '.5', '1.5.2',
              '[]', '[ ]', '[1]', '[1, 2]', ' [ 1 , 2 ] ', '[1,]', '[,1]', '[1 2]', '[[], []]', '[[1, [2, "x"]], "y", 2.5]', '[', ']', '[1', '[1,',
              '"a"', '"a" x', '"a/b"', '"a' + chr(92) + 'u002fb"', ' "sp"  ', '["a", 1, [2.0, "b/c"]]', 'NaN', 'Infinity', '-Infinity', '-Inf', 'nan',
              '[NaN, -Infinity]', '1 2', '', ' ', '12345678901234567890123', '-9e999', '0.0', '0e0', '00', '-01', '1e05', '[1.0e+2]', '\t[1]\n',
              '[1]]', '[[1]', '"\\ud83d\\ude00"', '[1,\n 2]']


def _float_tokens_to_values(g):
    """the model keeps a float as its text; `float(text)` is Python's (contract): compare by the value's canonical text"""
    def sub(m):
        tok = bytes.fromhex(m.group(1)).decode()
        return 'f:' + json.dumps(float(tok.replace('Infinity', 'inf').replace('NaN', 'nan'))).encode().hex()
    return re.sub(r'f:([0-9a-f]+)', sub, g)


def json_cases(ctx, r, B):
    """the JSON model (`loadsJ`) against `json.loads`: label texts, label lists, hand-made edge cases"""
    texts = list(JSON_TEXTS)
    for l in F.LABEL_POOL:
        t = json.dumps(dimod.variables.serialize_variable(l))
        texts += [t, t.replace('/', '\\u002f'), t + '  ', t[:-1], t + ']']
    for _ in range(ctx.scale(40, 400)):
        labs = F.pick_labels(r, r.randint(0, 5), 'mixed')
        t = json.dumps(list(dimod.variables.iter_serialize_variables(labs)))
        texts += [t, t + ' ' * r.randint(0, 9), t[:r.randrange(len(t))]]
    for t in texts:
        ctx.case(('json', t), nontrivial=True); ctx.tick('json text')
        try:
            v = json.loads(t)
            exp = wire_json(v)
        except ValueError:
            exp = 'none'
        except TypeError:
            continue
        B.add(f'loadsj {F.hx(t.encode("utf-8", "surrogatepass"))}', exp, 'json.loads vs loadsJ', 'accepted text' if exp != 'none' else 'rejected text',
              f'text {t!r}', F.PRELUDE + f"t = {t!r}\n", post=_float_tokens_to_values)


def header_section_cases(ctx, r, B):
    from dimod.serialization.fileview import make_header, read_header, Section, VariablesSection

    class S(Section):
        magic = b'TEST'

        def __init__(self, data, nlb):
            self.data = data
            self.NUM_LENGTH_BYTES = nlb

        def dump_data(self):
            return self.data

        @classmethod
        def loads_data(cls, data):
            return data
    for _ in range(ctx.scale(120, 1500)):
        pre = r.choice([b'DIMODBQM', b'DIMODQM', b'DIMODEXPR', b'X'])
        k = r.choice([0, 1, 5, 40, 41, 42, 43, 44, 45, 46, 47, 48, 49, 50, 51, 52, 105, 106, 107, 108, 109, 110, 111, 112, 113, 114, 115, 300])
        payload = {'k': 'x' * k}
        text = json.dumps(payload, sort_keys=True).encode('ascii')
        ver = (r.randrange(4), r.randrange(3))
        hb = bytes(make_header(pre, payload, ver))
        ctx.case(('hdr', pre, k, ver), nontrivial=True); ctx.tick('header')
        rp = F.PRELUDE + f"from dimod.serialization.fileview import make_header, read_header\nhb = bytes(make_header({pre!r}, {payload!r}, {ver!r}))\n"
        if len(hb) % 64 or read_header(io.BytesIO(hb + b'tail'), pre) != (payload, ver):
            ctx.fail('property', 'make_header/read_header', f'json length {len(text)} mod 64 = {len(text) % 64}',
                     'header does not round trip or is not 64-byte aligned',
                     repro=rp + f"assert len(hb) % 64 == 0 and read_header(io.BytesIO(hb), {pre!r}) == ({payload!r}, {ver!r})\n")
        B.add(f'mkhdr {F.hx(pre)} {ver[0]} {ver[1]} {F.hx(text)}', F.hx(hb), 'make_header vs makeHeader', 'header', 'header bytes', rp)
        B.add(f'rdhdr {F.hx(pre)} {F.hx(text)} {F.hx(hb + b"tail")}', f'ok {ver[0]},{ver[1]} rest=4', 'read_header vs readHeader', 'header',
              'header read back', rp)
        nlb = r.choice([4, 4, 8])
        dl = r.choice([0, 1, 7, 8, 51, 52, 53, 55, 56, 57, 59, 60, 61, 119, 120, 121, 200])
        d = bytes(r.randrange(256) for _ in range(dl))
        sb = S(d, nlb).dumps()
        ctx.case(('sect', nlb, dl, d), nontrivial=True); ctx.tick('section')
        S.NUM_LENGTH_BYTES = nlb
        back = S.load(io.BytesIO(sb + b'tail'))
        rp2 = F.PRELUDE + "from dimod.serialization.fileview import Section\n"
        if len(sb) % 64 or back[:dl] != d or back[dl:].strip(b' '):
            ctx.fail('property', 'Section.dumps/load', f'data length {dl}', 'section does not round trip or is not 64-byte aligned',
                     repro=rp2 + "assert False, 'see detail'\n", detail=dict(data=d.hex(), nlb=nlb))
        B.add(f'section {F.hx(b"TEST")} {nlb} {F.hx(d)}', F.hx(sb), 'Section.dumps vs sectionDumps', 'section', 'section bytes', rp2)
        B.add(f'rdsect {F.hx(b"TEST")} {nlb} {F.hx(sb + b"tail")}', f'ok {F.hx(back)} rest=4', 'Section.load vs sectionLoad', 'section',
              'section read back', rp2)


# ------------------------------------------------------------------ bundled files

def bundled(ctx, B):
    root = os.path.join(os.environ.get('VERIF_BUILD', ''), 'tests', 'data')
    if not os.path.isdir(root):
        ctx.notes.append('bundled tests/data not found in the build snapshot')
        return
    p = os.path.join(root, 'fileview', '5x5_v1.bqm')
    if os.path.exists(p):
        data = open(p, 'rb').read()
        ctx.case(('bundled', '5x5_v1.bqm'), nontrivial=True); ctx.tick('bundled bqm v1')
        new = dimod.BQM.from_file(data)
        want = dimod.BQM(np.triu(np.arange(25).reshape((5, 5))), 'BINARY')
        rp = F.PRELUDE + F.SAME_SRC + ("import os\nimport dimod\nroot = os.path.join(os.path.dirname(os.path.dirname(dimod.__file__)), 'tests', 'data')\n"
                                        "new = dimod.BQM.from_file(open(os.path.join(root, 'fileview', '5x5_v1.bqm'), 'rb').read())\n"
                                        "want = dimod.BQM(np.triu(np.arange(25).reshape((5, 5))), 'BINARY')\n"
                                        "d = diff_models('bqm', want, new); assert d is None, d\n")
        d = F.diff_models('bqm', want, new)
        if d:
            ctx.fail('property', 'BinaryQuadraticModel.from_file', 'bundled 5x5_v1.bqm', d, repro=rp)
        pre, fver, text, hend = F.split_header(data)
        hv = json.loads(text)
        H = F.wire_H(hv['shape'][0], hv['shape'][1], np.dtype(hv['dtype']).itemsize, f"L{len(hv['variables'])}", vartype=1,
                     isize=np.dtype(hv['itype']).itemsize, nsize=np.dtype(hv['ntype']).itemsize)
        if new.dtype.itemsize == np.dtype(hv['dtype']).itemsize:
            off, lin, low = F.content_qm(new)
            B.add(f'decbqm full {F.hx(text)} {H} - 0 {F.hx(data)}', f'ok off={off} lin={lin} low={low} labels={len(hv["variables"])} rest=0',
                  'BinaryQuadraticModel.from_file vs bqmDecode', 'bundled 5x5_v1.bqm', 'decoded content', rp)
    cdir = os.path.join(root, 'cqm')
    for fn in sorted(os.listdir(cdir)) if os.path.isdir(cdir) else []:
        data = open(os.path.join(cdir, fn), 'rb').read()
        ctx.case(('bundled', fn), nontrivial=True); ctx.tick('bundled cqm ' + fn.rsplit('_', 1)[1][:-4])
        rp = F.PRELUDE + F.SAME_SRC + ("import os\nroot = os.path.join(os.path.dirname(os.path.dirname(dimod.__file__)), 'tests', 'data', 'cqm')\n"
                                        f"data = open(os.path.join(root, {fn!r}), 'rb').read()\n"
                                        "a = dimod.CQM.from_file(data)\nb = dimod.CQM.from_file(a.to_file())\n"
                                        "d = diff_models('cqm', a, b); assert d is None, d\n")
        try:
            a = dimod.CQM.from_file(data)
            b = dimod.CQM.from_file(a.to_file())
            d = F.diff_models('cqm', a, b)
        except Exception as e:  # noqa
            d = f'{type(e).__name__}: {e}'
        if d:
            ctx.fail('property', 'ConstrainedQuadraticModel.from_file', f'bundled {fn}', d, repro=rp)
            continue
        pre, fver, text, hend = F.split_header(data)
        members = archive_of(data, hend)
        if fver >= (2, 0):
            hv = json.loads(text)
            dirs = []
            for nm, _ in members:
                mt = CON_RE.match(nm)
                if mt and mt.group(1) not in dirs:
                    dirs.append(mt.group(1))
            table = {}
            for nm, bts in members:
                if nm == 'objective' or nm.endswith('/lhs'):
                    t = F.split_header(bts)[2]
                    table[t] = expr_header_H(t)[1]
            oracle = ';'.join(F.hx(t) + '=' + h for t, h in table.items())
            md = dict(members)
            lt = F.hx(md['variable_labels.json']) if 'variable_labels.json' in md else 'none'
            cons2 = [wire_constraint_loaded(dd, a.constraints[dimod.variables.deserialize_variable(json.loads(dd))], list(a.variables)) for dd in dirs]
            exp = ('dirs=' + (','.join(F.hx(dd.encode()) for dd in dirs) or '-') + ' ok vi=' + F.content_varinfo(a, np.float64) +
                   ' labels=' + lt + ' obj=' + F.content_expr(a.objective, list(a.variables)) + ' cons=' + ('^'.join(cons2) or '-'))
            wm = ','.join(F.hx(nm.encode()) + '=' + F.hx(bts) for nm, bts in members) or '-'
            B.add(f'deccqm 8 {cqm_counts(hv)} {oracle} {",".join(F.hx(dd.encode()) + ":1" for dd in dirs) or "-"} {wm}', exp,
                  'ConstrainedQuadraticModel.from_file vs cqmDecodeChecked', f'bundled {fn}', 'decoded content', rp)
        else:
            legacy_case(ctx, B, fn, data, a, rp)


def label_code(l):
    """labels as numbers for the driver: a small non-negative int is itself, anything else gets a code from a table"""
    if isinstance(l, (int, np.integer)) and not isinstance(l, bool) and 0 <= int(l) < 10 ** 6:
        return int(l)
    key = repr(F.typed(l))
    return 10 ** 6 + int.from_bytes(__import__('hashlib').blake2b(key.encode(), digest_size=4).digest(), 'big')


def wire_loaded(real):
    """canonical text of what `fileview.load` returned for a member (QM or BQM), as the driver prints it"""
    n = real.num_variables
    off, lin, low = F.content_qm(real)
    is_range = list(real.variables) == list(range(n))
    labels = 'none' if is_range else (','.join(str(label_code(v)) for v in real.variables) or '-')
    if isinstance(real, dimod.QuadraticModel):
        return f'qm/vi={F.content_varinfo(real, real.dtype)}/{off}/{lin}/{low}/{labels}'
    return f'bqm/vt={0 if real.vartype is dimod.SPIN else 1}/{off}/{lin}/{low}/{labels}'


def legacy_case(ctx, B, fn, data, cqm, rp):
    """a bundled 1.x file through the whole legacy loader model (`legacyDecodeChecked`)"""
    pre, fver, text, hend = F.split_header(data)
    hv = json.loads(text)
    members = archive_of(data, hend)
    dirs = []
    for nm, _ in members:
        mt = CON_RE.match(nm)
        if mt and mt.group(1) not in dirs:
            dirs.append(mt.group(1))
    htable, vtable, loaded = {}, {}, {}
    for nm, bts in members:
        if nm == 'objective' or nm.endswith('/lhs'):
            pre2, v2, t2, he2 = F.split_header(bts)
            hv2 = json.loads(t2)
            real = fv_load(bts)
            loaded[nm] = real
            nvar = hv2['shape'][0]
            if pre2 == b'DIMODQM':
                htable[t2] = F.wire_H(nvar, hv2['shape'][1], np.dtype(hv2['dtype']).itemsize, 'T' if hv2['variables'] else 'F')
            else:
                vf = ('T' if hv2['variables'] else 'F') if v2 >= (2, 0) else f"L{len(hv2['variables'])}"
                htable[t2] = F.wire_H(nvar, hv2['shape'][1], np.dtype(hv2['dtype']).itemsize, vf, vartype=0 if hv2['vartype'] == 'SPIN' else 1)
            if hv2['variables']:
                vtable[F.vars_text(real.variables)] = '.'.join(str(label_code(v)) for v in real.variables) or '-'
    counts = ','.join(str(hv.get(k, '-')) for k in ('num_variables', 'num_constraints', 'num_biases', 'num_quadratic_variables',
                                                     'num_quadratic_variables_real', 'num_linear_biases_real', 'num_weighted_constraints'))
    cons = []
    for d in dirs:
        label = dimod.variables.deserialize_variable(json.loads(d))
        comp = cqm.constraints[label]
        soft = '-'
        if comp.lhs.is_soft():
            soft = F.hx(F.fbytes(comp.lhs.weight(), np.float64)) + ':' + F.hx(comp.lhs.penalty().encode('ascii'))
        cons.append('~'.join([F.hx(d.encode()), wire_loaded(loaded[f'constraints/{d}/lhs']), F.hx(F.fbytes(comp.rhs, np.float64)),
                              F.hx(comp.sense.value.encode('ascii')), '1' if comp.lhs.is_discrete() else '0', soft]))
    exp = 'ok obj=' + wire_loaded(loaded['objective']) + ' cons=' + ('^'.join(cons) or '-')
    wm = ','.join(F.hx(nm.encode()) + '=' + F.hx(bts) for nm, bts in members) or '-'
    B.add(f'declegacy {fver[0]}.{fver[1]} {counts} {";".join(F.hx(t) + "=" + h for t, h in htable.items())} '
          f'{";".join(F.hx(t) + "=" + c for t, c in vtable.items()) or "-"} {",".join(F.hx(d.encode()) + ":1" for d in dirs) or "-"} {wm}',
          exp, 'ConstrainedQuadraticModel._from_file_legacy vs legacyDecodeChecked', f'bundled {fn}',
          'loaded members, attributes and header check', rp)




# ------------------------------------------------------------------ round 7: the ZIP container and the .npy members at byte level

def zip_entries(arch):
    """every member of the archive bytes `arch` (offsets relative to its start) as the driver's ZEntry wire text, from the
    central directory (zipfile) and the raw local headers; returns (wire entries, inflate oracle, [(name, content)])"""
    import struct
    zf = zipfile.ZipFile(io.BytesIO(arch))
    ents, oracle, members = [], [], []
    for i in zf.infolist():
        lh = arch[i.header_offset:i.header_offset + 30]
        sig, lver, lver_hi, flags, method, tm, dt, crc, lcs, lus, nlen, elen = struct.unpack('<4s2B4HL2L2H', lh)
        lextra = arch[i.header_offset + 30 + nlen:i.header_offset + 30 + nlen + elen]
        start = i.header_offset + 30 + nlen + elen
        stored = arch[start:start + i.compress_size]
        content = zf.read(i.filename)
        name = arch[i.header_offset + 30:i.header_offset + 30 + nlen]
        if method != 0:
            oracle.append(F.hx(stored) + ':' + F.hx(content))
        ents.append('='.join([F.hx(name), F.hx(content), 's' if method == 0 else F.hx(stored), str(method), str(i.CRC), str(lver + 256 * lver_hi),
                              str(i.create_version + 256 * i.create_system), str(i.flag_bits), str(tm), str(dt), str(lcs), str(lus),
                              F.hx(lextra), F.hx(i.extra), str(i.internal_attr), str(i.external_attr)]))
        members.append((name, content))
    return ents, ','.join(oracle) or '-', members


def zip_case(ctx, B, data, start, site, ic, rp, base=None):
    """the archive that begins at offset `start` of `data`: (i) the byte-level writer `zipBytes` reproduces it from its
    entries, (ii) the byte-level reader (`_EndRecData`, directory walk, local headers, real CRC-32; deflate by table)
    reads the members out of the WHOLE file"""
    arch = data[start:]
    try:
        ents, oracle, members = zip_entries(data)       # offsets as zipfile sees them in these bytes (shifted by `concat`)
    except Exception as e:  # noqa
        ctx.fail('property', site, ic, f'zipfile cannot list the archive just written: {type(e).__name__}: {e}', repro=rp)
        return
    ctx.tick(f'zip bytes: {len(members)} members, ' + ('deflated' if oracle != '-' else 'stored'))
    # `base`: the file position the archive was WRITTEN at (its recorded offsets are absolute): `start` for a CQM file, the
    # position of the BIAS payload for the npz blob of a DQM file (which np.load is handed on its own: negative `concat`)
    B.add(f'zipwrite {start if base is None else base} {";".join(ents)}', F.hx(arch), f'zipfile (writer) vs zipBytes [{site}]', ic,
          'archive bytes: local headers, central directory, end record', rp)
    if ents:
        # round 8: the side condition of `C10.local_header_check_accepts_written` on every generated archive: each local header
        # records the size of its data (directly, or 0xFFFFFFFF + zip64 extra for the members written with force_zip64=True)
        B.add(f'ziplocalok {";".join(ents)}', ','.join('1' for _ in ents), f'zipfile (writer) vs ZEntry.LocalOK [{site}]', ic,
              'local headers record the size of the stored bytes', rp)
    B.add(f'zipread {F.hx(data)} {oracle}', ','.join(F.hx(n) + '=' + F.hx(c) for n, c in members) or '-',
          f'zipfile (reader) vs readDirBytes [{site}]', ic, 'members read from the whole file', rp)


def npy_case(ctx, B, blob, site, ic, rp):
    """every `.npy` member of an `.npz` blob: header bytes by `npyHeader`, parse by `parseNpy`"""
    zf = zipfile.ZipFile(io.BytesIO(blob))
    from numpy.lib import format as npf
    for name in zf.namelist():
        b = zf.read(name)
        f = io.BytesIO(b)
        ver = npf.read_magic(f)
        shape, fortran, dtype = npf.read_array_header_1_0(f) if ver == (1, 0) else npf.read_array_header_2_0(f)
        hlen = f.tell()
        sh = '.'.join(map(str, shape)) or '-'
        ctx.tick(f'npy member {name}: version {ver[0]}.{ver[1]} rank {len(shape)}')
        B.add(f'npyhdr {dtype.str} {sh}', F.hx(b[:hlen]), f'numpy.lib.format.write_array_header vs npyHeader [{site}]', ic, f'header of {name}', rp)
        B.add(f'npyparse {F.hx(b)}', f'{dtype.str}:{sh}:{F.hx(b[hlen:])}', f'numpy.lib.format.read_array vs parseNpy [{site}]', ic, f'member {name} parsed', rp)

# ------------------------------------------------------------------ round 7: CQMs reached through histories

def cqm_history_cases(ctx, r, n):
    """CQMs that `set_objective` / `add_constraint` alone do not produce: expressions left WITHOUT variables but with a
    non-zero offset (objective.offset assigned on a feasibility model; every objective variable fixed / removed), an
    objective or a left-hand side whose variable keeps a zero bias, constraints whose lhs is reduced to a constant,
    variables removed after constraints were added (indices shift), soft / discrete constraints after fixing.
    Every writer option x loader entry point; property predicate only (the model files are covered by `cqm_case`)."""
    for _ in range(n):
        c = r.choice([0.5, -7.25, 5.0, 3.0])
        steps = ["m = dimod.ConstrainedQuadraticModel()",
                 "x, y, z = dimod.Binaries(['x', 'y', 'z'])",
                 "i = dimod.Integer('i', lower_bound=-3, upper_bound=8)",
                 "s = dimod.Spin('s')"]
        how = r.choice(['offset assigned', 'all objective variables fixed', 'constant set_objective', 'zero-bias variable', 'mixed',
                        'all objective variables fixed', 'offset assigned'])
        if how == 'offset assigned':
            steps += ["m.add_constraint(x + y == 1, label='pick one')", f"m.objective.offset = {c!r}"]
        elif how == 'all objective variables fixed':
            steps += [f"m.set_objective(2*x + {r.choice([1, -3])}*i + x*i + {c!r})", "m.add_constraint(y + z + s <= 2, label='c0')",
                      "m.fix_variable('x', 1)", f"m.fix_variable('i', {r.choice([-3, 0, 8])})"]
        elif how == 'constant set_objective':
            steps += [f"m.set_objective(dimod.QuadraticModel() + {c!r})", "m.add_constraint(x + i >= 1, label=('t', 1))"]
        elif how == 'zero-bias variable':
            steps += [f"m.set_objective(0*x + {c!r})", "m.add_constraint(0*y + 0*z + i <= 3, label='zero')"]
        else:
            steps += [f"m.set_objective(x + y + {c!r})", "m.add_constraint(x + y + z == 1, label='d')",
                      f"m.add_constraint(2*x - y <= 1, label='soft', weight={r.choice([0.5, 2.0])!r}, penalty='linear')",
                      "m.fix_variable('x', 0)", "m.fix_variable('y', 1)"]
        # optionally: a constraint whose lhs is reduced to a constant, and a variable removed from the model afterwards
        if r.random() < .5:
            steps += [f"m.add_constraint(z + {r.choice([1.5, -2.0])!r} <= 4, label='lhs-offset')"]
            if r.random() < .5:
                steps += ["m.fix_variable('z', 1)"]
        if r.random() < .4:
            steps += ["w = dimod.Binary('w')", "m.add_constraint(w + s >= 0, label='late')", "m.fix_variable('w', 0)"]
        src = '\n'.join(steps) + '\n'
        env = dict(dimod=dimod, np=np)
        try:
            exec(src, env)
        except Exception as e:  # noqa -- a history dimod itself refuses is not a case
            ctx.tick(f'cqm history refused: {type(e).__name__}')
            continue
        m = env['m']
        empty_obj = m.objective.num_variables == 0
        ctx.tick(f'cqm history: {how}' + (' (objective without variables, offset %s)' % ('non-zero' if m.objective.offset else 'zero') if empty_obj else ''))
        for compress in (False, True):
            for spool in (int(1e9), 0):
                kw = f'compress={compress}, spool_size={spool}'
                ctx.case(('cqm-history', src, kw), nontrivial=True)
                data = m.to_file(compress=compress, spool_size=spool).read()
                for name, (expr, fn) in LOADERS.items():
                    if name not in ('from_file(bytes)', 'from_file(BytesIO)', 'fileview.load(bytes)', 'fileview.load(BytesIO)'):
                        continue
                    rp = (F.PRELUDE + F.SAME_SRC + src + f"data = m.to_file({kw}).read()\nnew = {expr.format(cls=F.CLS['cqm'])}\n"
                          "d = diff_models('cqm', m, new)\nassert d is None, d\n")
                    try:
                        new = fn(dimod.ConstrainedQuadraticModel, data)
                        d = F.diff_models('cqm', m, new)
                    except Exception as e:  # noqa
                        d = f'loading the file just written raised {type(e).__name__}: {e}'
                    ctx.tick('property:ok' if d is None else 'property:DIFF')
                    if d is not None:
                        ic = ('cqm reached through a history: objective without variables and a non-zero offset' if empty_obj and m.objective.offset
                              else f'cqm reached through a history: {how}')
                        ctx.fail('property', 'ConstrainedQuadraticModel.to_file/from_file', ic,
                                 f'{kw}, {name}: loaded model differs from the original: {d}', repro=rp, detail=dict(source=src))
                        break

# ------------------------------------------------------------------ driver

def flush(ctx, B):
    if not B.lines:
        return
    got = run_driver('filedriver', B.lines, timeout=1800)
    ctx.corr_lines += len(B.lines)
    for i, ln in enumerate(B.lines):
        g = got[i] if i < len(got) else 'MISSING'
        if i in B.post:
            g = B.post[i](g)
        if g != B.expect[i]:
            site, ic, what, rp = B.meta[i]
            k = next((j for j in range(min(len(g), len(B.expect[i]))) if g[j] != B.expect[i][j]), min(len(g), len(B.expect[i])))
            ctx.fail('correspondence', site, ic,
                     f'{what}: implementation and Lean model differ at character {k}: impl …{B.expect[i][max(0, k - 30):k + 50]}… model …{g[max(0, k - 30):k + 50]}…',
                     detail=dict(op=ln.split(' ')[0], source=rp, line=ln[:4000]))


def run(ctx):
    r = ctx.rng
    B = Batch()
    ctx.rule = ('random BQM/QM/CQM/DQM specs (0..6 variables, mixed label types incl. floats, strings with / " \\ non-ASCII, nested '
                'tuples; float32/float64/object; dyadic biases) x every writer option; a case = one (model, options) pair, all of them '
                'non-trivial (a file is written and loaded); plus header/section shapes around the 64-byte boundary, a label table, and '
                'the bundled tests/data files')
    big = not ctx.quick
    counts = dict(bqm=ctx.scale(220, 2500), qm=ctx.scale(400, 4000), cqm=ctx.scale(260, 3000), dqm=ctx.scale(80, 800))
    header_section_cases(ctx, r, B)
    label_cases(ctx, r, B)
    json_cases(ctx, r, B)
    bundled(ctx, B)
    # 'qm real': QMs built under dimod.REAL_INTERACTIONS = True (squared REAL terms, REAL-REAL / REAL-other interactions)
    counts['qm real'] = ctx.scale(70, 700)
    specs = dict(F.SPECS, **{'qm real': F.spec_qm_real})
    for kind, fn in (('bqm', bqm_case), ('qm', qm_case), ('qm real', qm_case), ('cqm', cqm_case), ('dqm', dqm_case)):
        for _ in range(counts[kind]):
            spec = specs[kind](r, big)
            try:
                fn(ctx, r, B, spec)
            except Exception as e:  # noqa
                # a writer that refuses (raises on) a model the format accepts is a violation of the property itself
                try:
                    F.build(spec).to_file()
                except Exception as e2:  # noqa
                    ctx.fail('property', f'{F.cls_of(spec["kind"]).__name__}.to_file', label_class(spec['labels'] + [c['label'] for c in spec.get('constraints', [])]),
                             f'to_file raised {type(e2).__name__}: {e2}', repro=F.PRELUDE + F.emit(spec) + 'm.to_file()\n', detail=dict(spec=spec))
                else:
                    raise e
            if len([f for f in ctx.failures if f['kind'] == 'property']) >= 12:
                break
        flush(ctx, B)
        B = Batch()
    # DQMs whose total number of cases crosses the uint16 boundary of the index arrays (few variables, sparse biases)
    for _ in range(ctx.scale(3, 12)):
        spec = F.spec_dqm_large(r)
        ctx.tick('dqm large (cases around 65536)')
        dqm_case(ctx, r, B, spec, combos=[(False, False), (True, True)] if ctx.quick else None)
        flush(ctx, B)
        B = Batch()
    dqm_long_vars_case(ctx, r, B)
    flush(ctx, B)
    cqm_history_cases(ctx, r, ctx.scale(14, 200))
