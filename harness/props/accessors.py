"""Every read accessor of a quadratic model must report ONE polynomial (used by C01/C02/C03).

`reads(m)` reads the coefficients of `m` (BQM, QM, a `.spin`/`.binary` view, a CQM objective / constraint left-hand side)
through each public read path separately and returns `[(accessor name, canonical polynomial | 'ERR …')]`;
`disagreements(m)` returns the accessors whose polynomial differs from the one `iter_quadratic` + the base linear
path give, plus the scalar accessors (`degree`, `num_interactions`, `num_variables`, `is_linear`, `shape`, `len` of the mappings,
`reduce_*`) that contradict it.  A canonical polynomial is `(offset, {label: bias}, {key: bias})` in exact Fractions with key
`(u, u)` for a squared term and `frozenset({u, v})` otherwise; explicit zero interactions are part of it (presence is compared,
not only values), except for `to_polystring`, which by design omits zero terms and is compared on the non-zero coefficients.

Nothing here depends on the Lean models.
"""
import operator
import re
from fractions import Fraction


def F(x):
    return Fraction(float(x)) if not isinstance(x, (int, Fraction)) else Fraction(x)


def qkey(u, v):
    return (u, u) if u == v else frozenset((u, v))


def _canon_pairs(pairs, name, sym_required=False):
    """{(u, v): b} given in both directions (or one) -> canonical quad; an asymmetric pair is an error"""
    quad = {}
    for (u, v), b in pairs.items():
        k = qkey(u, v)
        if k in quad and quad[k] != b:
            raise AssertionError(f'{name}: ({u!r}, {v!r}) reported as {b} and as {quad[k]}')
        quad[k] = b
    if sym_required:
        for (u, v) in pairs:
            if (v, u) not in pairs:
                raise AssertionError(f'{name}: ({u!r}, {v!r}) reported but not ({v!r}, {u!r})')
    return quad


def parse_polystring(s, names):
    """inverse of `to_polystring` for an encoder that writes variable i as `x<i>_`; returns (off, lin, quad) over labels"""
    s = s.strip()
    off, lin, quad = Fraction(0), {}, {}
    if not s:
        return off, lin, quad
    toks = re.split(r' ([+-]) ', s)
    terms = [('+', toks[0])] + [(toks[i], toks[i + 1]) for i in range(1, len(toks), 2)]
    for sign, t in terms:
        if t.startswith('-'):
            sign, t = ('-' if sign == '+' else '+'), t[1:]
        parts = t.split('*')
        coef = Fraction(1)
        vs = []
        for p in parts:
            if p in names:
                vs.append(names[p])
            else:
                coef *= Fraction(float(p)) if ('.' in p or 'e' in p or 'inf' in p) else Fraction(int(p))
        if sign == '-':
            coef = -coef
        if not vs:
            off += coef
        elif len(vs) == 1:
            lin[vs[0]] = lin.get(vs[0], 0) + coef
        elif len(vs) == 2:
            k = qkey(vs[0], vs[1])
            quad[k] = quad.get(k, 0) + coef
        else:
            raise AssertionError(f'to_polystring: term {t!r} of degree {len(vs)}')
    return off, lin, quad


def nonzero(p):
    off, lin, quad = p
    return off, {v: b for v, b in lin.items() if b}, {k: b for k, b in quad.items() if b}


def reads(m):
    """[(accessor, polynomial or 'ERR: …')] — the first entry is the reference (positional iteration)"""
    vs = list(m.variables)
    out = []

    def attempt(name, fn):
        try:
            out.append((name, fn()))
        except Exception as e:  # noqa
            out.append((name, f'ERR: {type(e).__name__}: {e}'))

    def ref():
        quad = {}
        for u, v, b in m.iter_quadratic():
            k = qkey(u, v)
            if k in quad:
                raise AssertionError(f'iter_quadratic: interaction ({u!r}, {v!r}) listed twice')
            quad[k] = F(b)
        return F(m.offset), {v: F(b) for v, b in m.iter_linear()}, quad
    attempt('iter_linear + iter_quadratic', ref)

    def by_get():
        lin = {v: F(m.get_linear(v)) for v in vs}
        pairs = {}
        for u in vs:
            for v in vs:
                try:
                    pairs[(u, v)] = F(m.get_quadratic(u, v))
                except ValueError:
                    pass
        return F(m.offset), lin, _canon_pairs(pairs, 'get_quadratic', sym_required=True)
    attempt('get_linear + get_quadratic', by_get)

    def by_default():
        pairs = {}
        for u in vs:
            for v in vs:
                try:
                    b = m.get_quadratic(u, v, default=12345)
                except ValueError:      # self-loop of a SPIN/BINARY variable
                    continue
                if b != 12345:
                    pairs[(u, v)] = F(b)
        return F(m.offset), {v: F(m.get_linear(v)) for v in vs}, _canon_pairs(pairs, 'get_quadratic(default=)', sym_required=True)
    attempt('get_quadratic(default=)', by_default)

    def by_maps():
        lin_items = list(m.linear.items())
        lin = {v: F(b) for v, b in lin_items}
        if len(lin) != len(lin_items) or len(m.linear) != len(lin_items):
            raise AssertionError(f'linear mapping: {len(lin_items)} items, {len(lin)} distinct keys, len {len(m.linear)}')
        for v in vs:
            if F(m.linear[v]) != lin.get(v):
                raise AssertionError(f'linear[{v!r}] = {m.linear[v]} but linear.items() has {lin.get(v)}')
            if v not in m.linear:
                raise AssertionError(f'{v!r} in variables but not in the linear mapping')
        q_items = list(m.quadratic.items())
        if len(m.quadratic) != len(q_items):
            raise AssertionError(f'quadratic mapping: len {len(m.quadratic)} but {len(q_items)} items')
        pairs = {}
        for (u, v), b in q_items:
            pairs[(u, v)] = F(b)
            if F(m.quadratic[u, v]) != F(b) or F(m.quadratic[v, u]) != F(b):
                raise AssertionError(f'quadratic[{u!r}, {v!r}] = {m.quadratic[u, v]} / {m.quadratic[v, u]} but items() has {b}')
            if (u, v) not in m.quadratic or (v, u) not in m.quadratic:
                raise AssertionError(f'({u!r}, {v!r}) in quadratic.items() but `in quadratic` is False')
        return F(m.offset), lin, _canon_pairs(pairs, 'quadratic mapping')
    attempt('linear mapping + quadratic mapping', by_maps)

    def by_adj():
        pairs = {}
        keys = list(m.adj)
        if keys != vs or len(m.adj) != len(vs):
            raise AssertionError(f'adj keys {keys} != variables {vs}')
        for v in vs:
            nb = m.adj[v]
            items = list(nb.items())
            if len(nb) != len(items):
                raise AssertionError(f'len(adj[{v!r}]) = {len(nb)} but {len(items)} items')
            for u, b in items:
                pairs[(v, u)] = F(b)
                if F(nb[u]) != F(b):
                    raise AssertionError(f'adj[{v!r}][{u!r}] = {nb[u]} but items() has {b}')
        return F(m.offset), {v: F(m.linear[v]) for v in vs}, _canon_pairs(pairs, 'adj', sym_required=True)
    attempt('adj', by_adj)

    def by_nbh():
        pairs = {}
        for v in vs:
            seen = set()
            for u, b in m.iter_neighborhood(v):
                if u in seen:
                    raise AssertionError(f'iter_neighborhood({v!r}) lists {u!r} twice')
                seen.add(u)
                pairs[(v, u)] = F(b)
        return F(m.offset), {v: F(m.get_linear(v)) for v in vs}, _canon_pairs(pairs, 'iter_neighborhood', sym_required=True)
    attempt('iter_neighborhood', by_nbh)

    if hasattr(m, 'to_numpy_vectors'):
        def by_vectors():
            order = list(vs)
            res = m.to_numpy_vectors(variable_order=order)
            ldata, (irow, icol, qdata), off = res[0], res[1], res[2]
            lin = {order[i]: F(b) for i, b in enumerate(ldata)}
            quad = {}
            for i, j, b in zip(irow, icol, qdata):
                k = qkey(order[int(i)], order[int(j)])
                if k in quad:
                    raise AssertionError(f'to_numpy_vectors lists {k} twice')
                quad[k] = F(b)
            return F(off), lin, quad
        attempt('to_numpy_vectors', by_vectors)

    if hasattr(m, 'to_polystring'):
        def by_polystring():
            names = {f'x{i}_': v for i, v in enumerate(vs)}
            pos = {}
            for i, v in enumerate(vs):
                pos.setdefault(v, i)
            s = m.to_polystring(encoder=lambda v: f'x{pos[v]}_')
            return ('nonzero',) + parse_polystring(s, names)
        attempt('to_polystring', by_polystring)
    return out


def scalar_disagreements(m, ref):
    """scalar read paths against the reference polynomial `ref`"""
    off, lin, quad = ref
    vs = list(m.variables)
    bad = []

    def chk(name, fn, expect, optional=False):
        try:
            got = fn()
        except (NotImplementedError, TypeError) as e:
            if optional:        # `reduce_*` is declared but not implemented on CQM expressions
                return
            got = f'ERR: {type(e).__name__}: {e}'
        except Exception as e:  # noqa
            got = f'ERR: {type(e).__name__}: {e}'
        if got != expect:
            bad.append((name, f'{got!r}, the reported interactions/variables give {expect!r}'))
    chk('num_interactions', lambda: int(m.num_interactions), len(quad))
    chk('num_variables', lambda: int(m.num_variables), len(vs))
    if hasattr(m, 'shape'):
        chk('shape', lambda: tuple(int(x) for x in m.shape), (len(vs), len(quad)))
    if hasattr(m, 'is_linear'):
        chk('is_linear()', lambda: bool(m.is_linear()), not quad)
    deg = {v: 0 for v in vs}
    for k in quad:
        for v in (k if isinstance(k, frozenset) else k[:1]):
            deg[v] += 1
    for v in vs:
        chk(f'degree({v!r})', lambda v=v: int(m.degree(v)), deg[v])
    if hasattr(m, 'reduce_linear'):
        chk('reduce_linear(add)', lambda: F(m.reduce_linear(operator.add, 0)), sum(lin.values(), Fraction(0)), True)
        chk('reduce_quadratic(add)', lambda: F(m.reduce_quadratic(operator.add, 0)), sum(quad.values(), Fraction(0)), True)
        for v in vs:
            exp = sum((b for k, b in quad.items() if v in k), Fraction(0))
            chk(f'reduce_neighborhood({v!r}, add)', lambda v=v: F(m.reduce_neighborhood(v, operator.add, 0)), exp, True)
    chk('linear.sum()', lambda: F(m.linear.sum()), sum(lin.values(), Fraction(0)), True)
    chk('quadratic.sum()', lambda: F(m.quadratic.sum()), sum(quad.values(), Fraction(0)), True)
    for v in vs:
        chk(f'variables.__contains__ ({v!r})', lambda v=v: v in m.variables, True)
        if hasattr(m.variables, 'index'):
            chk(f'variables.index ({v!r})', lambda v=v: vs[m.variables.index(v)] == v, True)
    return bad


def disagreements(m):
    """[(accessor, text)] — empty when every read path reports the polynomial of the reference path"""
    rs = reads(m)
    name0, ref = rs[0]
    if isinstance(ref, str):
        return [(name0, ref)], None
    bad = []
    for name, p in rs[1:]:
        if isinstance(p, str):
            bad.append((name, p))
        elif p and p[0] == 'nonzero':
            if nonzero(p[1:]) != nonzero(ref):
                bad.append((name, f'reports {show(nonzero(p[1:]))} (non-zero terms), {name0} reports {show(nonzero(ref))}'))
        elif p != ref:
            bad.append((name, f'reports {show(p)}, {name0} reports {show(ref)}'))
    bad += scalar_disagreements(m, ref)
    return bad, ref


def show(p):
    off, lin, quad = p
    return (f'offset {off}, linear {{{", ".join(f"{v!r}: {b}" for v, b in lin.items())}}}, quadratic '
            f'{{{", ".join(f"{tuple(sorted(k, key=repr)) if isinstance(k, frozenset) else k!r}: {b}" for k, b in quad.items())}}}')


def value(p, row):
    """the polynomial `p` at `row` (exact)"""
    off, lin, quad = p
    e = Fraction(off)
    for v, b in lin.items():
        e += b * F(row[v])
    for k, b in quad.items():
        u, v = (tuple(k) if isinstance(k, frozenset) else k)
        e += b * F(row[u]) * F(row[v])
    return e


with open(__file__.replace('.pyc', '.py')) as _f:
    _SRC = _f.read()
_SRC = _SRC[:_SRC.index('with open(__file__')]


def repro_src(target):
    """self-contained tail of a repro script: this module's source + the assertion on `target`"""
    return (_SRC + f'\nt = {target}\nbad, ref = disagreements(t)\n'
            'assert not bad, ("read accessors of one object report different polynomials", bad)\n')
