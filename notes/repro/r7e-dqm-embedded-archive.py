"""C10 counterexample search: a DQM whose linear biases spell a complete npz archive of ANOTHER DQM.
Truncating the file right after the embedded end record makes from_file return the other model."""
import io
import numpy as np
import dimod

inner = dimod.DiscreteQuadraticModel()
inner.add_variable(2)
inner.set_linear_case(0, 1, 42.0)
buf = io.BytesIO()
v = inner.to_numpy_vectors(return_offset=True)
np.savez(buf, case_starts=v.case_starts, linear_biases=v.linear_biases, quadratic_row_indices=v.quadratic.row_indices,
         quadratic_col_indices=v.quadratic.col_indices, quadratic_biases=v.quadratic.biases, offset=v.offset)
z = buf.getvalue()
z += b'\0' * (-len(z) % 8)          # comment-free end record must be the LAST 22 bytes: pad in FRONT instead
z = b'\0' * (-len(buf.getvalue()) % 8) + buf.getvalue()
assert len(z) % 8 == 0
biases = np.frombuffer(z, dtype=np.float64).copy()
print('embedded archive', len(z), 'bytes =', len(biases), 'float64 biases; NaNs:', int(np.isnan(biases).sum()))

n = len(biases)
outer = dimod.DiscreteQuadraticModel.from_numpy_vectors(
    case_starts=np.arange(n, dtype=np.uint32), linear_biases=biases,
    quadratic=(np.array([], dtype=np.uint32), np.array([], dtype=np.uint32), np.array([], dtype=np.float64)))
assert outer.num_variables() == n
data = outer.to_file().read()
back = dimod.DiscreteQuadraticModel.from_file(data)
assert back.num_variables() == n
assert np.array_equal(back.to_numpy_vectors().linear_biases.view(np.uint8), biases.view(np.uint8)), 'complete file round trip'
k = data.index(z) + len(z)
print('file', len(data), 'bytes; cut at', k)
bad = []
for kk in range(len(data)):
    try:
        new = dimod.DiscreteQuadraticModel.from_file(data[:kk])
    except Exception as e:
        continue
    if new.num_variables() != n:
        bad.append((kk, new.num_variables(), new.num_cases()))
print('prefixes that load as a different model:', bad[:5], len(bad))
assert not bad, f'the first {bad[0][0]} of {len(data)} bytes load as a DIFFERENT model'
