"""C10 counterexample search: a CQM whose objective's linear biases spell the complete zip archive of ANOTHER CQM
(same header counts).  Truncating the file right after the embedded end record makes from_file return the other model."""
import numpy as np
import dimod
from dimod.serialization.fileview import load

N = 200
inner = dimod.ConstrainedQuadraticModel()
inner.add_variables('BINARY', N)
inner.set_objective([(v, 1.0) for v in range(N)])
idata = inner.to_file(compress=True).read()
hlen = 8 + 2 + 4 + int.from_bytes(idata[10:14], 'little')
z = idata[hlen:]
assert z[:4] == b'PK\x03\x04' and z[-22:-18] == b'PK\x05\x06'
z = b'\0' * (-len(z) % 8) + z
assert len(z) <= 8 * N, (len(z), 8 * N)
biases = list(np.frombuffer(z, dtype=np.float64)) + [1.0] * (N - len(z) // 8)
print('embedded archive', len(z), 'bytes; NaN biases:', sum(1 for b in biases if b != b))

outer = dimod.ConstrainedQuadraticModel()
outer.add_variables('BINARY', N)
outer.set_objective(zip(range(N), biases))
data = outer.to_file().read()
back = dimod.ConstrainedQuadraticModel.from_file(data)
assert np.array_equal(np.array([back.objective.get_linear(v) for v in range(N)]).view(np.uint8), np.array(biases).view(np.uint8))
k = data.index(z) + len(z)
print('file', len(data), 'bytes; embedded archive ends at', k)
bad = []
for kk in list(range(0, len(data), 97)) + list(range(k - 3, k + 40)) + [len(data) - 1]:
    try:
        new = dimod.ConstrainedQuadraticModel.from_file(data[:kk])
    except Exception as e:
        continue
    if not new.is_equal(outer):
        bad.append(kk)
print('prefixes (sampled) that load as a DIFFERENT model:', bad[:8], len(bad))
if bad:
    new = load(data[:bad[0]])
    print('loaded objective linear biases:', sorted(set(new.objective.linear.values())), 'original had', len(set(biases)), 'distinct values')
assert not bad, f'the first {bad[0]} of {len(data)} bytes load as a DIFFERENT model'
