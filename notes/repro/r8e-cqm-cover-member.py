"""C10 counterexample against the REPAIRED CQM loader (`_open_archive`: the members must tile the file between header
and central directory).  The tiling check trusts the directory found by zipfile -- which, in a truncated file, is the one
the payload spells.  That directory lists ONE extra member ("cover") at the position where the header ends, whose
`compress_size` spans all real members up to the point inside the objective's biases where the embedded members begin;
the loader never opens "cover", so its name / CRC are never compared with the local header.  The embedded members follow
contiguously, then the embedded directory: the tiling check passes and `from_file` returns the EMBEDDED model for every
prefix from the end of the embedded end record on.  The complete file round-trips."""
import io
import zipfile

import numpy as np
import dimod

N = 220
inner = dimod.ConstrainedQuadraticModel()
inner.add_variables('BINARY', N)
inner.set_objective([(v, 1.0) for v in range(N)])
idata = inner.to_file(compress=True).read()
ihlen = 8 + 2 + 4 + int.from_bytes(idata[10:14], 'little')
izf = zipfile.ZipFile(io.BytesIO(idata[ihlen:]))
imembers = [(i.filename, izf.read(i.filename)) for i in izf.infolist()]


def outer_file(biases):
    outer = dimod.ConstrainedQuadraticModel()
    outer.add_variables('BINARY', N)
    outer.set_objective(zip(range(N), biases))
    return outer, outer.to_file().read()


# pass 1: the layout of the outer file (all sizes are independent of the bias values)
marker = np.frombuffer(b'\xa5' * (8 * N), dtype=np.float64)
_, data0 = outer_file(list(marker))
hdr_end = 8 + 2 + 4 + int.from_bytes(data0[10:14], 'little')
assert data0[hdr_end:hdr_end + 4] == b'PK\x03\x04'
nlen1 = int.from_bytes(data0[hdr_end + 26:hdr_end + 28], 'little')
elen1 = int.from_bytes(data0[hdr_end + 28:hdr_end + 30], 'little')
q = data0.index(b'\xa5' * (8 * N))          # where the objective's linear biases start in the file

# pass 2: the embedded archive, written for file position q, with the cover member listed first
buf = io.BytesIO(b'\0' * q)
zf = zipfile.ZipFile(buf, 'a', compression=zipfile.ZIP_DEFLATED)
for name, content in imembers:
    zf.writestr(name, content)
cover = zipfile.ZipInfo('cover')
cover.header_offset = hdr_end
cover.compress_size = cover.file_size = q - (hdr_end + 30 + nlen1 + elen1)
cover.CRC = 0
zf.filelist.insert(0, cover)
zf.close()
z = buf.getvalue()[q:]
assert z[-22:-18] == b'PK\x05\x06'
zp = z + b'\0' * (-len(z) % 8)
assert len(zp) <= 8 * N, (len(zp), 8 * N)
biases = list(np.frombuffer(zp, dtype=np.float64)) + [1.0] * (N - len(zp) // 8)

outer, data = outer_file(biases)
assert data[q:q + len(z)] == z, 'payload not stored verbatim'
back = dimod.ConstrainedQuadraticModel.from_file(data)
assert np.array_equal(np.array([back.objective.get_linear(v) for v in range(N)]).view(np.uint8), np.array(biases).view(np.uint8))
k = q + len(z)
print('file', len(data), 'bytes; header ends at', hdr_end, '; embedded archive', len(z), 'bytes at', q, '..', k)

bad = []
for kk in sorted(set(list(range(0, len(data), 61)) + list(range(k - 3, k + 40)) + [len(data) - 1])):
    try:
        new = dimod.ConstrainedQuadraticModel.from_file(data[:kk])
    except Exception:
        continue
    if not new.is_equal(outer):
        bad.append(kk)
print('prefixes (sampled) that load as a DIFFERENT model:', bad[:8], len(bad))
assert not bad, f'the first {bad[0]} of {len(data)} bytes load as a DIFFERENT model'
