#!/bin/sh
# offline setup: build the Lean models, proofs and drivers; pre-build the /repo snapshot
set -e
cd "$(dirname "$0")"
(cd lean && lake build DimodModel DimodProofs Properties varsdriver bqmdriver cqmdriver filedriver)
/venv/bin/python harness/build.py
