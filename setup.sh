#!/bin/sh
# offline setup: build the Lean models, proofs, properties and every model driver; pre-build the /repo snapshot
set -e
cd "$(dirname "$0")"
DRIVERS=$(grep -A1 '^\[\[lean_exe\]\]' lean/lakefile.toml | sed -n 's/^name = "\(.*\)"/\1/p' | tr '\n' ' ')
(cd lean && lake build DimodModel DimodProofs Generated Properties $DRIVERS)
/venv/bin/python harness/build.py
