"""Rebuild seeded/RESULTS.md from the `detected_by_own_check` record in every seeded/<id>/meta.json."""
import glob, json, os
V = os.path.dirname(os.path.dirname(os.path.abspath(__file__)))
rows = []
for d in sorted(glob.glob(os.path.join(V, 'seeded', 'C*-*'))):
    m = json.load(open(os.path.join(d, 'meta.json')))
    r = m.get('detected_by_own_check') or {}
    v = r.get('verdict', 'not run')
    if v == 'DETECTED' and r.get('no_failing_input_found'):
        v += ' (no-failing-input-found)'
    conf = m.get('confirmed')
    ok = conf.get('ok') if isinstance(conf, dict) else None
    rows.append((os.path.basename(d), m.get('property', ''), v, 'yes' if ok else str(ok),
                 str(m.get('summary') or '')[:140].replace('|', '/').replace('\n', ' '), (r.get('what') or '')[:200].replace('|', '/')))
n = len(rows); det = sum(1 for r in rows if r[2].startswith('DETECTED'))
with open(os.path.join(V, 'seeded', 'RESULTS.md'), 'w') as f:
    f.write(f'# Seeded changes vs. the check of their own property (quick tier, VERIF_SEED=0)\n\n{det} of {n} detected.\n\n'
            '| seed | property | verdict | confirmed independently | change | first finding reported |\n|---|---|---|---|---|---|\n')
    for r in rows:
        f.write('| ' + ' | '.join(r) + ' |\n')
print(det, 'of', n)
