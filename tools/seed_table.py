"""Rebuild seeded/RESULTS.md from the `detected_by_own_check` record in every seeded/<id>/meta.json."""
import glob, json, os
V = os.path.dirname(os.path.dirname(os.path.abspath(__file__)))
rows = []
for d in sorted(glob.glob(os.path.join(V, 'seeded', 'C*-*'))):
    m = json.load(open(os.path.join(d, 'meta.json')))
    r = m.get('detected_by_own_check') or {}
    v = r.get('verdict', 'not run')
    if v == 'DETECTED' and r.get('no_failing_input_found'):
        v += ' (no-failing-input-found)'
    if m.get('superseded_by_fix') and v == 'MISSED':
        # the change only broke the property through a defect that has since been repaired in /repo: on the repaired tree its demo
        # passes, i.e. it is no longer a property-breaking change (detected on the tree before the repair)
        v = f"HARMLESS since fix {m['superseded_by_fix']} (demo passes on the repaired tree; was detected before the repair)"
    conf = m.get('confirmed')
    ok = conf.get('ok') if isinstance(conf, dict) else None
    rows.append((os.path.basename(d), m.get('property', ''), v, 'yes' if ok else str(ok),
                 str(m.get('summary') or '')[:140].replace('|', '/').replace('\n', ' '), (r.get('what') or '')[:200].replace('|', '/')))
live = [r for r in rows if not r[2].startswith('HARMLESS')]
n = len(live); det = sum(1 for r in live if r[2].startswith('DETECTED'))
with open(os.path.join(V, 'seeded', 'RESULTS.md'), 'w') as f:
    f.write(f'# Seeded changes vs. the check of their own property (quick tier, VERIF_SEED=0)\n\n{det} of {n} detected ({len(rows) - n} more made harmless by a later repair of /repo).\n\n'
            '| seed | property | verdict | confirmed independently | change | first finding reported |\n|---|---|---|---|---|---|\n')
    for r in rows:
        f.write('| ' + ' | '.join(r) + ' |\n')
print(det, 'of', n)
