#!/bin/sh
# tools/mkagent.sh <name>: private clone of /verif (with Lean build output) for a builder sub-agent
set -e
A=/var/tmp/agents/$1
rm -rf "$A"; mkdir -p "$A"
git clone -q /verif "$A/verif"
rsync -a /verif/lean/.lake/ "$A/verif/lean/.lake/"
git -C "$A/verif" checkout -q -b "agent-$1"
echo "$A/verif"
