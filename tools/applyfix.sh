#!/bin/sh
# tools/applyfix.sh <patch> "<commit message starting with fix:>"   — apply one repair to /repo as its own commit
set -e
cd /repo
test -z "$(git status --porcelain --untracked-files=no)" || { echo "/repo not clean"; exit 1; }
patch -p1 --no-backup-if-mismatch < "$1"
git commit -qam "$2"
git log --oneline | head -1
