"""Run every seeded change against the check of its own property (quick tier) and write seeded/RESULTS.md + update each meta.json.
   python3 tools/sweep_seeds.py [ids...]"""
import json, os, subprocess, sys, glob, re
V = os.path.dirname(os.path.dirname(os.path.abspath(__file__)))
ids = sys.argv[1:] or sorted(os.path.basename(d) for d in glob.glob(os.path.join(V, 'seeded', 'C*-*')))
rows = []
for sid in ids:
    d = os.path.join(V, 'seeded', sid)
    meta = json.load(open(os.path.join(d, 'meta.json')))
    prop = meta.get('property', sid.split('-')[0])
    r = subprocess.run(['python3', 'tools/run_seed.py', f'seeded/{sid}', prop], cwd=V, capture_output=True, text=True)
    out = r.stdout
    m = re.search(rf'{sid} {prop}: (\S+)\s*(.*)', out)
    verdict = m.group(1) if m else 'ERROR'
    detail = ''
    for ln in out.splitlines():
        if ln.startswith('     ') and '|' in ln:
            detail = ln.strip()[:220]; break
    nofail = 'no-failing-input-found' in out
    meta['detected_by_own_check'] = dict(verdict=verdict, no_failing_input_found=nofail, what=detail,
                                         cmd=f'python3 tools/run_seed.py seeded/{sid} {prop}  (git -C /repo apply patch.diff; ./check {prop} --tier quick; git -C /repo reset --hard)')
    json.dump(meta, open(os.path.join(d, 'meta.json'), 'w'), indent=1)
    rows.append((sid, prop, verdict + (' (no-failing-input-found)' if nofail and verdict == 'DETECTED' else ''), (meta.get('summary') or '')[:110].replace('|', '/'), detail.replace('|', '/')))
    print(rows[-1][:3], flush=True)
with open(os.path.join(V, 'seeded', 'RESULTS.md'), 'w') as f:
    f.write('# Seeded changes vs. the check of their own property (quick tier, VERIF_SEED=0)\n\n| seed | property | verdict | change | first finding reported |\n|---|---|---|---|---|\n')
    for r in rows:
        f.write('| ' + ' | '.join(r) + ' |\n')
