HOOK_COMMITS = ['0b7d34f']

CHECKS = {
 'C13': dict(
  text='Lean theorems: under the representation invariant the sparse maps of cyVariables refine a duplicate-free list (membership, index, append, single relabel step); the executable model is compared with the real Variables object (internal sparse state after every op, which calls raise) and the real object with list semantics (len, iteration, indexing, slicing, index, count, aliases, equality, copy, pickle) on random histories every run.',
  note='Trusted: Lean kernel + propext/Classical.choice/Quot.sound; the model-code tie is differential (random histories), NumPy scalar == nested tuple semantics excluded (DESIGN D23); multi-key relabel refinement is proved only per step so far.',
  technique='Lean 4 refinement proof (sparse maps -> list) + differential correspondence against cyVariables'),
 'C09': dict(
  text='Lean theorems: header/section/BQM v1+v2/QM/expression/CQM-archive/label round trips for all well-formed contents (decode (encode m) = m, file consumed exactly, 64-byte alignment), directory names path-safe and string labels parsed back at JSON-text level; encoders compared byte-for-byte and decoders field-for-field with dimod on random models x options and the bundled files every run; loaded model compared with the original through the public API.',
  note='json.loads (except string literals), zipfile, np.savez/np.load are parameters with stated contracts (JsonContract, ContainerContract); floats are opaque payloads; the lower-triangle -> adjacency rebuild and the final relabel are the models of C04/C13; legacy CQM 1.x layout only tested; DQM body trusted (partial theorem).',
  technique='Lean 4 reader-program model + Comp composition proofs; byte/field differential correspondence via compiled driver; format constants regenerated from source'),
 'C10': dict(
  text='Lean theorems: prefix lemma for all reader programs; for BQM v1/v2, QM and expression files every proper prefix raises or returns the original with < 64 padding bytes lost; guarded raw loaders and whole loaders never reach undefined behaviour for any bytes; every prefix of every generated file is loaded by the real code in forked children and its outcome class compared with the model; out-of-bounds reads are made observable by an unreadable guard page.',
  note='CQM/DQM bodies under the zip/npz contract (partial theorems); crash/hang freedom of the binary is observed on the explored prefixes only; corrupt (non-truncated) files are out of scope.',
  technique='Lean 4 reader-program model + prefix-stability proofs; every-prefix differential correspondence; electric fence (guard page); valgrind in thorough tier'),
 'C06': dict(
  text='Lean theorems: an executable model `Sym.build` of the operator overloads (21 node kinds incl. in-place forms, CQM views, aliased operands, quicksum) with `build_eval` proved by structural induction: the built model evaluates to the arithmetic of the tree at every in-domain sample (x*x=x binary, s*s=1 spin, true square integer/real); promotion keeps type and bounds; conflicts are rejected; operands of non-in-place operators are unchanged (frame theorem on a store model). Every sub-tree of random trees is built with the real operators and compared coefficient-wise with the model and energy-wise with exact arithmetic every run.',
  note='float rounding is outside the model (dyadic inputs); dtype only selects code paths; immutability is proved for the modelled operator programs and observed on the real objects; variable-free BQM operands are not generated yet.',
  technique='Lean 4 structural-induction proof over an operator model + differential correspondence of every sub-tree'),
 'C07': dict(
  text='Lean theorems: the gray-code loop enumerates all 2^n rows exactly once; the DQM/CQM case products enumerate the domain product (one-hot blocks for discrete constraints) exactly once; lowest (feasible) row is a global optimum; energy plumbing of sample/sample_ising/sample_qubo, polymorph_response columns and energies, PolyScale rescaling, PolyFixedVariable fixing, Truncate are energy/row preserving. Every sampler x composite stack x entry point x option grid is run on random small problems and each row checked against the submitted problem computed independently.',
  note='rows of stochastic samplers (Random, SimulatedAnnealing) are validated, not proved; make_quadratic belongs to C15; child samplers enter the composable theorems as parameters with a contract.',
  technique='Lean 4 enumeration/permutation proofs (Nodup + membership) and energy-plumbing lemmas + differential correspondence of enumeration order and post-processing'),
 'C12': dict(
  text='Lean theorems: the LP writer as a token emitter and a specification reader for exactly the emitted sub-grammar: token-level round trip (variables with types and bounds, constraint labels, senses, objective evaluation, each constraint activity lhs(x)-rhs; rhs and lhs individually when the lhs constant is 0), line wrapping never splits a token, SPIN/soft/invalid labels are refused before any output; label rules regenerated from lp.py. Model text is compared byte for byte with lp.dumps and the model reading with lp.loads (real C++ parser) on random CQMs every run.',
  note='the C++ LP parser and the lexical layer (number formatting, tokenisation) are covered by the correspondence only; the preserved quantity for a constraint with a constant on its lhs is the activity lhs-rhs (LP grammar has no lhs constant).',
  technique='Lean 4 writer/spec-reader round-trip proof + byte-level differential correspondence; label tables regenerated from source'),
}

_PENDING = 'check under construction in this round; not yet claimed'
NOT_APPLICABLE = {f'C{i:02d}': _PENDING for i in range(1, 21) if f'C{i:02d}' not in CHECKS}
