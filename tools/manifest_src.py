HOOK_COMMITS = ['0b7d34f']

CHECKS = {
 'C13': dict(
  text='Lean theorems: under the representation invariant the sparse maps of cyVariables refine a duplicate-free list (membership, index, append, single relabel step); the executable model is compared with the real Variables object (internal sparse state after every op, which calls raise) and the real object with list semantics (len, iteration, indexing, slicing, index, count, aliases, equality, copy, pickle) on random histories every run.',
  note='Trusted: Lean kernel + propext/Classical.choice/Quot.sound; the model-code tie is differential (random histories), NumPy scalar == nested tuple semantics excluded (DESIGN D23); multi-key relabel refinement is proved only per step so far.',
  technique='Lean 4 refinement proof (sparse maps -> list) + differential correspondence against cyVariables'),
 'C09': dict(
  text='Lean theorems: header/section/BQM v1+v2/QM/expression/CQM-archive/label round trips for all well-formed contents (decode (encode m) = m, file consumed exactly, 64-byte alignment), directory names path-safe and string labels parsed back at JSON-text level; encoders compared byte-for-byte and decoders field-for-field with dimod on random models x options and the bundled files every run; loaded model compared with the original through the public API.',
  note='json.loads (except string literals), zipfile, np.savez/np.load are parameters with stated contracts (JsonContract, ContainerContract); floats are opaque payloads; the lower-triangle -> adjacency rebuild and the final relabel are the models of C04/C13; legacy CQM 1.x layout only tested; DQM body trusted (partial theorem).',
  technique='Lean 4 reader-program model + Comp composition proofs; byte/field differential correspondence via compiled driver; format constants regenerated from source'),
 'C10': dict(
  text='Lean theorems: prefix lemma for all reader programs; for BQM v1/v2, QM and expression files every proper prefix raises or returns the original with < 64 padding bytes lost; guarded raw loaders and whole loaders never reach undefined behaviour for any bytes; every prefix of every generated file is loaded by the real code in forked children and its outcome class compared with the model; out-of-bounds reads are made observable by an unreadable guard page.',
  note='CQM/DQM bodies under the zip/npz contract (partial theorems); crash/hang freedom of the binary is observed on the explored prefixes only; corrupt (non-truncated) files are out of scope.',
  technique='Lean 4 reader-program model + prefix-stability proofs; every-prefix differential correspondence; electric fence (guard page); valgrind in thorough tier'),
}

_PENDING = 'check under construction in this round; not yet claimed'
NOT_APPLICABLE = {f'C{i:02d}': _PENDING for i in range(1, 21) if f'C{i:02d}' not in CHECKS}
