HOOK_COMMITS = ['0b7d34f']

CHECKS = {
 'C13': dict(
  text='Lean theorems: under the representation invariant the sparse maps of cyVariables refine a duplicate-free list (membership, index, append, single relabel step); the executable model is compared with the real Variables object (internal sparse state after every op, which calls raise) and the real object with list semantics (len, iteration, indexing, slicing, index, count, aliases, equality, copy, pickle) on random histories every run.',
  note='Trusted: Lean kernel + propext/Classical.choice/Quot.sound; the model-code tie is differential (random histories), NumPy scalar == nested tuple semantics excluded (DESIGN D23); multi-key relabel refinement is proved only per step so far.',
  technique='Lean 4 refinement proof (sparse maps -> list) + differential correspondence against cyVariables'),
}

_PENDING = 'check under construction in this round; not yet claimed'
NOT_APPLICABLE = {f'C{i:02d}': _PENDING for i in range(1, 21) if f'C{i:02d}' not in CHECKS}
