"""Apply a seeded change to /repo, run the given checks (quick tier), undo the change.

    python3 tools/run_seed.py seeded/<id> [Cxx ...]      (default: the property in meta.json)

Prints one line per check: DETECTED (exit 1 + VIOLATION line) / MISSED (exit 0) / ERROR (other).
/repo is always restored (git checkout -- . ; untracked files the patch created are removed).
"""
import json, os, subprocess, sys

VERIF = os.path.dirname(os.path.dirname(os.path.abspath(__file__)))
seed = sys.argv[1].rstrip('/')
meta = json.load(open(os.path.join(seed, 'meta.json')))
props = sys.argv[2:] or [meta['property']]
patch = os.path.abspath(os.path.join(seed, 'patch.diff'))
assert subprocess.run(['git', '-C', '/repo', 'status', '--porcelain', '--untracked-files=no'], capture_output=True, text=True).stdout.strip() == '', '/repo not clean'
results = {}
try:
    if subprocess.run(['git', '-C', '/repo', 'apply', patch], capture_output=True).returncode != 0:
        # HEAD moved since the seed was made (fix: commits): fall back to a 3-way apply; keep only the working-tree change
        subprocess.run(['git', '-C', '/repo', 'apply', '--3way', patch], check=True, capture_output=True)
        subprocess.run(['git', '-C', '/repo', 'reset', '-q'], check=True)
        assert '<<<<<<<' not in subprocess.run(['git', '-C', '/repo', 'diff'], capture_output=True, text=True).stdout, 'conflict: rebase the seed patch'
    for p in props:
        r = subprocess.run(['./check', p, '--tier', 'quick'], cwd=VERIF, capture_output=True, text=True,
                           env=dict(os.environ, VERIF_SEED=os.environ.get('VERIF_SEED', '0')))
        viol = [l for l in r.stdout.splitlines() if l.startswith('VIOLATION')]
        verdict = 'DETECTED' if r.returncode == 1 and viol else ('MISSED' if r.returncode == 0 else f'ERROR(exit {r.returncode})')
        results[p] = verdict
        print(f'{os.path.basename(seed)} {p}: {verdict}  {viol[0] if viol else ""}')
        if viol:
            rp = viol[0].split('replay=')[1].split()[0]
            try:
                d = json.load(open(os.path.join(VERIF, rp)))
                print('    ', d.get('site'), '|', d.get('input_class'), '|', str(d.get('what'))[:300])
            except Exception as e:
                print('    (replay unreadable)', e)
        else:
            print('\n'.join('    ' + l for l in r.stdout.splitlines()[-3:]))
finally:
    subprocess.run(['git', '-C', '/repo', 'reset', '-q', '--hard', 'HEAD'], check=True)
    subprocess.run(['git', '-C', '/repo', 'clean', '-fdq', '--', 'dimod'], check=False)
json.dump(results, open(os.path.join(seed, 'last_run.json'), 'w'))
