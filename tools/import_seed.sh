#!/bin/sh
# tools/import_seed.sh <Cxx> <n>: take a seeder's deliverables from $B/<Cxx>-out into seeded/<Cxx>-<n>/ and remove its worktree
set -e
P=$1; N=$2; B=${3:-/tmp/seedwt}; D=/verif/seeded/$P-$N
mkdir -p $D
cp $B/$P-out/patch.diff $B/$P-out/demo.py $B/$P-out/meta.json $D/
git -C /repo worktree remove --force $B/$P 2>/dev/null || true
rm -rf $B/$P $B/$P-out
git -C /repo worktree prune
echo imported $D
