#!/bin/sh
# tools/import_seed.sh <Cxx> <n>: take a seeder's deliverables from /tmp/seedwt/<Cxx>-out into seeded/<Cxx>-<n>/ and remove its worktree
set -e
P=$1; N=$2; D=/verif/seeded/$P-$N
mkdir -p $D
cp /tmp/seedwt/$P-out/patch.diff /tmp/seedwt/$P-out/demo.py /tmp/seedwt/$P-out/meta.json $D/
git -C /repo worktree remove --force /tmp/seedwt/$P 2>/dev/null || true
rm -rf /tmp/seedwt/$P /tmp/seedwt/$P-out
git -C /repo worktree prune
echo imported $D
