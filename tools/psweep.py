"""Parallel sweep of seeded changes, never touching /repo.

    python3 tools/psweep.py [-j N] [--seed S] [--no-write] [ids...]

Each of the N workers owns a private copy of /verif (with its Lean build output, so nothing is rebuilt
unless a translator's output changes) and a private copy of /repo's working tree under /var/tmp/psweep/w<k>;
for every seeded change it re-synchronises the repo copy from /repo, applies seeded/<id>/patch.diff there and
runs the quick check of the change's own property with VERIF_REPO / VERIF_SCRATCH pointing at the copies.
Verdicts: DETECTED (exit 1 + VIOLATION line) / MISSED (exit 0) / ERROR.  Updates each meta.json and rebuilds
seeded/RESULTS.md through tools/seed_table.py unless --no-write.  The work area is removed at the end.
"""
import json, os, subprocess, sys, glob, re, shutil, threading, queue, time

V = os.path.dirname(os.path.dirname(os.path.abspath(__file__)))
ROOT = '/var/tmp/psweep'
args = sys.argv[1:]
J = 4; SEED = '0'; WRITE = True; ids = []
while args:
    a = args.pop(0)
    if a == '-j': J = int(args.pop(0))
    elif a == '--seed': SEED = args.pop(0)
    elif a == '--no-write': WRITE = False
    else: ids.append(a)
ids = ids or sorted(os.path.basename(d) for d in glob.glob(os.path.join(V, 'seeded', 'C*-*')))
q = queue.Queue()
for i in ids: q.put(i)
results = {}
lock = threading.Lock()

RS_REPO = ['rsync', '-a', '--delete', '--exclude=.git', '--exclude=build/', '--exclude=*.so', '--exclude=__pycache__',
           '--exclude=/dimod/**/*.cpp', '--exclude=/dimod/*.cpp', '--exclude=*.html', '--exclude=.pytest_cache']


def worker(k):
    w = os.path.join(ROOT, f'w{k}')
    wv, wr, ws = os.path.join(w, 'verif'), os.path.join(w, 'repo'), os.path.join(w, 'scratch')
    os.makedirs(w, exist_ok=True)
    subprocess.run(['rsync', '-a', '--delete', '--exclude=.git', '--exclude=replays/', V + '/', wv + '/'], check=True)
    while True:
        try:
            sid = q.get_nowait()
        except queue.Empty:
            return
        d = os.path.join(V, 'seeded', sid)
        meta = json.load(open(os.path.join(d, 'meta.json')))
        prop = meta.get('property', sid.split('-')[0])
        subprocess.run(RS_REPO + ['/repo/', wr + '/'], check=True)
        # Generated/*.lean may have been rewritten by the previous change: restore from /verif
        subprocess.run(['rsync', '-a', os.path.join(V, 'lean', 'Generated') + '/', os.path.join(wv, 'lean', 'Generated') + '/'], check=True)
        pr = subprocess.run(['patch', '-p1', '--no-backup-if-mismatch', '-d', wr, '-i', os.path.join(d, 'patch.diff')],
                            capture_output=True, text=True)
        t0 = time.time()
        if pr.returncode != 0:
            verdict, out, viol = 'ERROR(patch does not apply)', pr.stdout[-500:], []
        else:
            env = dict(os.environ, VERIF_SEED=SEED, VERIF_REPO=wr, VERIF_SCRATCH=ws)
            r = subprocess.run(['./check', prop, '--tier', 'quick'], cwd=wv, capture_output=True, text=True, env=env)
            out = r.stdout
            viol = [l for l in out.splitlines() if l.startswith('VIOLATION')]
            verdict = 'DETECTED' if r.returncode == 1 and viol else ('MISSED' if r.returncode == 0 else f'ERROR(exit {r.returncode})')
        detail = ''
        if viol:
            rp = viol[0].split('replay=')[1].split()[0]
            try:
                dd = json.load(open(os.path.join(wv, rp)))
                detail = f"{dd.get('site')} | {dd.get('input_class')} | {str(dd.get('what'))[:300]}"
            except Exception as e:
                detail = f'(replay unreadable: {e})'
        nofail = any('no-failing-input-found' in l for l in viol)
        with lock:
            results[sid] = (prop, verdict, nofail, detail)
            print(f'{sid} {prop}: {verdict}{" (no-failing-input-found)" if nofail else ""}  [{time.time()-t0:.0f}s]  {detail[:160]}', flush=True)
            if verdict.startswith('ERROR'):
                print('    ' + '\n    '.join(out.splitlines()[-6:]), flush=True)
            if WRITE and not verdict.startswith('ERROR'):
                meta['detected_by_own_check'] = dict(verdict=verdict, no_failing_input_found=nofail, what=detail,
                                                     cmd=f'python3 tools/psweep.py {sid}  (patch applied to a private copy of /repo; ./check {prop} --tier quick with VERIF_REPO pointing at it; VERIF_SEED={SEED})')
                json.dump(meta, open(os.path.join(d, 'meta.json'), 'w'), indent=1)


ts = [threading.Thread(target=worker, args=(k,)) for k in range(min(J, len(ids)))]
for t in ts: t.start()
for t in ts: t.join()
shutil.rmtree(ROOT, ignore_errors=True)
n = sum(1 for v in results.values() if v[1] == 'DETECTED')
print(f'{n} of {len(results)} detected; missed: {sorted(k for k, v in results.items() if v[1] == "MISSED")}; errors: {sorted(k for k, v in results.items() if v[1].startswith("ERROR"))}')
if WRITE and os.path.exists(os.path.join(V, 'tools', 'seed_table.py')):
    subprocess.run(['python3', 'tools/seed_table.py'], cwd=V)
