"""Confirm a seeded change independently in a scratch worktree of /repo (outside /repo and /verif):
   suite passes with the change, demo fails with it and passes without it.  Records the outcome in meta.json.

       python3 tools/verify_seed.py seeded/<id> [...]
"""
import json, os, shutil, subprocess, sys, re

PY = '/venv/bin/python'
WT = '/var/tmp/seedverify'

def sh(cmd, cwd=None, env=None, timeout=3000):
    return subprocess.run(cmd, cwd=cwd, env=env, shell=isinstance(cmd, str), capture_output=True, text=True, timeout=timeout)

def build(wt, force=False):
    if force:  # setuptools does not track header dependencies: touch every Cython / C++ source so that everything is recompiled
        sh("find extern -name '*.cpp' | xargs touch; sleep 1; find dimod -name '*.pyx' | xargs touch", cwd=wt)  # never the generated dimod/**/*.cpp: a newer .cpp stops cythonize
    r = sh(f'CYTHON_NTHREADS=8 {PY} setup.py build_ext --inplace -j8', cwd=wt)
    assert r.returncode == 0, r.stdout[-2000:] + r.stderr[-2000:]

def demo(wt, seed):
    env = dict(os.environ, PYTHONPATH=wt)
    r = sh([PY, os.path.abspath(os.path.join(seed, 'demo.py'))], cwd=wt, env=env, timeout=600)
    return r.returncode, (r.stdout + r.stderr)[-400:]

def main():
    if os.path.exists(WT):
        sh(['git', '-C', '/repo', 'worktree', 'remove', '--force', WT])
        shutil.rmtree(WT, ignore_errors=True)
    sh(['git', '-C', '/repo', 'worktree', 'prune'])
    r = sh(['git', '-C', '/repo', 'worktree', 'add', '--detach', WT, 'HEAD']); assert r.returncode == 0, r.stderr
    try:
        build(WT)
        for seed in sys.argv[1:]:
            seed = seed.rstrip('/')
            meta = json.load(open(os.path.join(seed, 'meta.json')))
            patch = os.path.abspath(os.path.join(seed, 'patch.diff'))
            native = bool(re.search(r'\.(pyx|pxi|pxd|h|hpp|cpp)\b', open(patch).read()))
            header = bool(re.search(r'^\+\+\+ .*\.(pxi|pxd|h|hpp)\b', open(patch).read(), flags=re.M))
            rc0, out0 = demo(WT, seed)
            r = sh(['git', 'apply', patch], cwd=WT)
            if r.returncode != 0:
                meta['confirmed'] = f'patch does not apply to HEAD: {r.stderr[-200:]}'
            else:
                if native:
                    build(WT, force=header)
                t = sh([PY, '-m', 'pytest', '-q', '-p', 'no:cacheprovider', '--timeout=900', 'tests'], cwd=WT)
                tail = (t.stdout.strip().splitlines() or ['?'])[-1]
                rc1, out1 = demo(WT, seed)
                sh(['git', 'checkout', '--', '.'], cwd=WT)
                if native:
                    build(WT, force=header)
                ok = rc0 == 0 and rc1 != 0 and t.returncode == 0
                meta['confirmed'] = dict(ok=ok, head=sh(['git', '-C', WT, 'rev-parse', '--short', 'HEAD']).stdout.strip(),
                                         suite_with_change=tail, demo_without=f'exit {rc0}', demo_with=f'exit {rc1}',
                                         demo_with_output=out1[-200:])
            json.dump(meta, open(os.path.join(seed, 'meta.json'), 'w'), indent=1)
            print(seed, meta['confirmed'], flush=True)
    finally:
        sh(['git', '-C', '/repo', 'worktree', 'remove', '--force', WT])
        shutil.rmtree(WT, ignore_errors=True)

main()
