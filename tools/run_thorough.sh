#!/bin/sh
# tools/run_thorough.sh Cxx ...: thorough tier of the given properties, one after the other, with wall times
cd "$(dirname "$0")/.."
for p in "$@"; do
  s=$(date +%s)
  VERIF_SEED=${VERIF_SEED:-0} ./check $p --tier thorough 2>&1 | grep "^\[check\]\|^VIOLATION"
  echo "$p thorough wall $(( $(date +%s) - s )) s"
done
