import json, glob, jsonschema
jsonschema.validate(json.load(open('/verif/MANIFEST.json')), json.load(open('/root/.vp/MANIFEST.schema.json')))
sch = json.load(open('/root/.vp/EVIDENCE.schema.json'))
for f in sorted(glob.glob('/verif/evidence/*.json')):
    jsonschema.validate(json.load(open(f)), sch)
print('manifest + evidence valid')
