"""copy an agent's delivered files into /verif:  python3 tools/integrate.py <agent> <relative paths / globs ...>"""
import glob, os, shutil, sys
agent = sys.argv[1]
src = f'/var/tmp/agents/{agent}/verif'
n = 0
for pat in sys.argv[2:]:
    hits = glob.glob(os.path.join(src, pat))
    if not hits:
        print('MISSING', pat)
    for h in hits:
        rel = os.path.relpath(h, src)
        dst = os.path.join('/verif', rel)
        os.makedirs(os.path.dirname(dst), exist_ok=True)
        shutil.copy2(h, dst); n += 1
print('copied', n, 'files')
