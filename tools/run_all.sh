#!/bin/sh
# run every registered quick check once: tools/run_all.sh [seed]
cd "$(dirname "$0")/.."
for i in 01 02 03 04 05 06 07 08 09 10 11 12 13 14 15 16 17 18 19 20; do
  VERIF_SEED=${1:-0} ./check C$i --tier ${2:-quick} 2>&1 | grep "^\[check\]\|^VIOLATION"
done
