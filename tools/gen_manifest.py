"""Regenerate MANIFEST.json from tools/manifest_src.py (kept as Python data for readability)."""
import json, os, sys
sys.path.insert(0, os.path.dirname(__file__))
from manifest_src import CHECKS, NOT_APPLICABLE, HOOK_COMMITS

checks = []
for pid, c in sorted(CHECKS.items()):
    checks.append(dict(
        property_id=pid,
        quick_cmd=f'./check {pid} --tier quick',
        thorough_cmd=f'./check {pid} --tier thorough',
        evidence_file=f'evidence/{pid}.json',
        replay_cmd_template=f'./check {pid} --replay {{path}}',
        engine='lean4-model+correspondence',
        level_claimed=dict(category='proof', text=c['text'], design_ref=c.get('design_ref', 'DESIGN.md section 5 / ' + pid)),
        level_note=c['note'],
        technique=c['technique']))
m = dict(
    version=1,
    setup_cmd='sh setup.sh',
    hooks=dict(guard='DIMOD_VERIF', enable='DIMOD_VERIF=1 python setup.py build_ext --inplace (done by harness/build.py in a scratch copy under /var/tmp/dimod-verif)',
               baseline_off_cmd='cd /repo && /venv/bin/python -m pytest -ra -q -p no:cacheprovider --timeout=900 --continue-on-collection-errors',
               source_commits=HOOK_COMMITS, add_only=True),
    engines=[dict(name='lean4-model+correspondence', path='lean/ + harness/', serves_properties=sorted(CHECKS),
                  kind_free_text='Lean 4 theorems about hand-written executable models (lean/DimodModel, lean/Properties); models tied to /repo on every run by differential execution of compiled model drivers against the real dimod build (harness/props) and by regenerated constant tables (harness/translate.py)')],
    checks=checks,
    notes='See DESIGN.md. Every check rebuilds /repo\'s working tree (hooks on) into /var/tmp/dimod-verif, rebuilds the Lean property module, audits axioms, then runs the correspondence and the property predicate on the real code.',
    not_applicable=[dict(property_id=k, reason=v) for k, v in sorted(NOT_APPLICABLE.items())])
json.dump(m, open(os.path.join(os.path.dirname(__file__), '..', 'MANIFEST.json'), 'w'), indent=1)
print('wrote MANIFEST.json with', len(checks), 'checks,', len(NOT_APPLICABLE), 'not yet claimed')
