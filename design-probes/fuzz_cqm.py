import random, sys, warnings, traceback, itertools, copy
warnings.simplefilter('ignore')
import numpy as np, dimod
from dimod import CQM, QM, BQM, Binary, Spin, Integer
def q(r): return r.randint(-12,12)/4
KINDS = {'x':'BINARY','y':'BINARY','s':'SPIN','t':'SPIN','i':'INTEGER','j':'INTEGER', 'w':'BINARY'}
def mkvar(l):
    k=KINDS[l]
    return Binary(l) if k=='BINARY' else Spin(l) if k=='SPIN' else Integer(l, lower_bound=-2, upper_bound=3)
def rexpr(r, labels):
    e = q(r) if r.random()<.7 else 0
    for _ in range(r.randint(0,3)):
        l=r.choice(labels); e = e + q(r)*mkvar(l)
    for _ in range(r.randint(0,3)):
        a,b=r.choice(labels), r.choice(labels)
        if a==b and KINDS[a]!='INTEGER': continue
        e = e + q(r)*mkvar(a)*mkvar(b)
    if isinstance(e,(int,float)): e = e + 0*mkvar(r.choice(labels))
    return e
DOM = {'BINARY':[0,1],'SPIN':[-1,1],'INTEGER':[-2,0,3]}
def snapshot(cqm, r2):
    vs=list(cqm.variables)
    samples=[{v: r2.choice(DOM[cqm.vartype(v).name]) for v in vs} for _ in range(6)]
    out={'vars':[(v,cqm.vartype(v).name,float(cqm.lower_bound(v)),float(cqm.upper_bound(v))) for v in vs]}
    out['obj']=[float(EV(cqm.objective, s)) for s in samples] if vs else [float(cqm.objective.offset)]
    out['cons']={}
    for lbl,c in cqm.constraints.items():
        out['cons'][lbl]=(c.sense.value,float(c.rhs),[float(EV(c.lhs, s)) for s in samples] if vs else [float(c.lhs.offset)], c.lhs.is_soft(), c.lhs.weight(), c.lhs.penalty(), c.lhs.is_discrete())
    return samples,out
issues={}
def EV(expr, sample):
    e=float(expr.offset)
    for v,b in expr.iter_linear(): e+=float(b)*sample[v]
    for u,v,b in expr.iter_quadratic(): e+=float(b)*sample[u]*sample[v]
    return e
def note(k,d):
    if k not in issues: issues[k]=d
for seed in range(int(sys.argv[1]), int(sys.argv[2])):
    r=random.Random(seed)
    labels=list(KINDS)
    try:
        cqm=CQM()
        cqm.set_objective(rexpr(r,labels))
        for ci in range(r.randint(0,3)):
            e=rexpr(r,labels); sense=r.choice(['<=','>=','=='])
            kw={}
            if r.random()<.3: kw=dict(weight=r.choice([1.5,2]), penalty='linear')
            cqm.add_constraint_from_model(e, sense, q(r), label=f'c{ci}', **kw)
        if r.random()<.3:
            free=[l for l in 'xyw' ]
            cqm.add_discrete([l for l in free], label='d') if all(True for _ in free) else None
    except Exception as e:
        note('BUILD-'+type(e).__name__, (seed, traceback.format_exc().splitlines()[-2:])); continue
    r2=random.Random(seed+1)
    for step in range(r.randint(1,6)):
        vs=list(cqm.variables)
        if not vs: break
        op=r.choice(['fix','fix_copy','remove_var','flip','s2b','relabel','remove_con','deepcopy','change_vt','fixmany','relabel_con','file'])
        samples,before=snapshot(cqm, random.Random(seed*7+step))
        try:
            if op in('fix','fix_copy','fixmany'):
                k=1 if op!='fixmany' else r.randint(1,len(vs))
                fv={v: r.choice(DOM[cqm.vartype(v).name]) for v in r.sample(vs,k)}
                ref=copy.deepcopy(cqm)
                if op=='fix_copy' or (op=='fixmany' and r.random()<.5):
                    new=cqm.fix_variables(fv, inplace=False)
                    s2,after_same=snapshot(cqm, random.Random(seed*7+step))
                    if after_same!=before: note('fix-copy-mutates',(seed,op,fv))
                else:
                    new=cqm; cqm.fix_variables(fv) if op=='fixmany' else cqm.fix_variable(*list(fv.items())[0])
                for s in samples:
                    full=dict(s); full.update(fv); rest={v:x for v,x in full.items() if v not in fv}
                    if abs(float(EV(new.objective, rest))-float(EV(ref.objective, full)))>1e-9: note('fix-obj-'+op,(seed,fv,str(ref.objective)));break
                    for lbl,c in ref.constraints.items():
                        n=new.constraints[lbl]
                        if abs(float(EV(n.lhs, rest))-float(EV(c.lhs, full)))>1e-9 or n.rhs!=c.rhs or n.sense!=c.sense or n.lhs.weight()!=c.lhs.weight(): note('fix-con-'+op,(seed,fv,lbl,str(c)));break
                cqm=new
            elif op=='remove_var':
                v=r.choice(vs); ref=copy.deepcopy(cqm)
                cqm.remove_variable(v)
                for s in samples:
                    full=dict(s); full[v]=0; rest={u:x for u,x in s.items() if u!=v}
                    if abs(float(EV(cqm.objective, rest))-float(EV(ref.objective, full)))>1e-9: note('remove-var-obj',(seed,v));break
                    for lbl,c in ref.constraints.items():
                        if abs(float(EV(cqm.constraints[lbl].lhs, rest))-float(EV(c.lhs, full)))>1e-9: note('remove-var-con',(seed,v,lbl));break
            elif op=='flip':
                cand=[v for v in vs if cqm.vartype(v).name!='INTEGER']
                if not cand: continue
                v=r.choice(cand); ref=copy.deepcopy(cqm); cqm.flip_variable(v)
                for s in samples:
                    f=dict(s); f[v]= -s[v] if cqm.vartype(v).name=='SPIN' else 1-s[v]
                    if abs(float(EV(cqm.objective, s))-float(EV(ref.objective, f)))>1e-9: note('flip-obj',(seed,v));break
                    for lbl,c in ref.constraints.items():
                        if abs(float(EV(cqm.constraints[lbl].lhs, s))-float(EV(c.lhs, f)))>1e-9: note('flip-con',(seed,v,lbl));break
            elif op in('s2b','change_vt'):
                ref=copy.deepcopy(cqm)
                if op=='s2b': new=cqm.spin_to_binary(inplace=r.random()<.5)
                else:
                    cand=[v for v in vs if cqm.vartype(v).name=='SPIN']
                    if not cand: continue
                    cqm.change_vartype('BINARY', r.choice(cand)); new=cqm
                for s in samples:
                    conv={v:((x+1)//2 if ref.vartype(v).name=='SPIN' and new.vartype(v).name=='BINARY' else x) for v,x in s.items()}
                    if abs(float(EV(new.objective, conv))-float(EV(ref.objective, s)))>1e-9: note(op+'-obj',(seed,));break
                    for lbl,c in ref.constraints.items():
                        if abs(float(EV(new.constraints[lbl].lhs, conv))-float(EV(c.lhs, s)))>1e-9: note(op+'-con',(seed,lbl));break
                cqm=new
            elif op=='relabel':
                ks=r.sample(vs, r.randint(1,len(vs))); tg=r.sample(['A','B','C','D','E','F','G',0,1,2], len(ks))
                m=dict(zip(ks,tg)); ref=copy.deepcopy(cqm)
                new=cqm.relabel_variables(m, inplace=r.random()<.5)
                for s in samples:
                    s2={m.get(v,v):x for v,x in s.items()}
                    if abs(float(EV(new.objective, s2))-float(EV(ref.objective, s)))>1e-9: note('relabel-obj',(seed,m));break
                    for lbl,c in ref.constraints.items():
                        if abs(float(EV(new.constraints[lbl].lhs, s2))-float(EV(c.lhs, s)))>1e-9: note('relabel-con',(seed,m,lbl));break
                # restore labels so KINDS/DOM lookups still work
                inv={b:a for a,b in m.items()}; cqm=new.relabel_variables(inv, inplace=False)
            elif op=='remove_con':
                if not len(cqm.constraints): continue
                lbl=r.choice(list(cqm.constraints)); ref=copy.deepcopy(cqm)
                cqm.remove_constraint(lbl, cascade=r.random()<.5)
                for l2,c in cqm.constraints.items():
                    vs2=list(cqm.variables)
                    for s in samples:
                        s2={v:s[v] for v in vs2}
                        if abs(float(EV(c.lhs, s2))-float(EV(ref.constraints[l2].lhs, s)))>1e-9: note('remove-con',(seed,lbl,l2));break
            elif op=='deepcopy':
                new=copy.deepcopy(cqm)
                if snapshot(new, random.Random(seed*7+step))[1]!=before: note('deepcopy',(seed,))
                # mutate copy, check original
                if len(new.variables): new.objective.add_linear(list(new.variables)[0], 5)
                if snapshot(cqm, random.Random(seed*7+step))[1]!=before: note('deepcopy-alias',(seed,))
            elif op=='relabel_con':
                if not len(cqm.constraints): continue
                ls=list(cqm.constraints); m={l:l+'_n' for l in r.sample(ls, r.randint(1,len(ls)))}
                ref=copy.deepcopy(cqm); cqm.relabel_constraints(m)
                a=snapshot(cqm, random.Random(seed*7+step))[1]
                exp={m.get(l,l):v for l,v in before['cons'].items()}
                if a['cons']!=exp: note('relabel-con-attrs',(seed,m,a['cons'],exp))
                cqm.relabel_constraints({b:a for a,b in m.items()})
            elif op=='file':
                new=CQM.from_file(cqm.to_file(compress=r.random()<.5))
                a=snapshot(new, random.Random(seed*7+step))[1]
                if a['vars']!=before['vars'] or a['obj']!=before['obj'] or a['cons']!=before['cons']: note('file-roundtrip',(seed,a,before))
        except Exception as e:
            note('EXC-'+op+'-'+type(e).__name__, (seed, traceback.format_exc().splitlines()[-3:]))
for k,v in issues.items(): print(k, str(v)[:700])
print('kinds',len(issues))
