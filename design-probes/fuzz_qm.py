import random, sys, warnings, traceback, itertools, copy
warnings.simplefilter('ignore')
import numpy as np, dimod
from dimod import *
issues={}
def note(k,d):
    if k not in issues: issues[k]=d
def q(r): return r.randint(-8,8)/4
LAB=[0,1,2,'a','b',('t',1),5]
class Ref:
    """plain polynomial: linear dict, quad dict on frozenset/tuple(u,u), vartype+bounds, ordered labels"""
    def __init__(s): s.order=[]; s.lin={}; s.quad={}; s.off=0.0; s.info={}
    def key(s,u,v): return (u,u) if u==v else frozenset((u,v))
    def snapshot(s):
        return ([repr(v) for v in s.order],{repr(v):s.lin[v] for v in s.order},
                {tuple(sorted(map(repr,(k if isinstance(k,tuple) else tuple(k))))):b for k,b in s.quad.items()},
                s.off,{repr(v):s.info[v] for v in s.order})
def snap(m):
    return ([repr(v) for v in m.variables],{repr(v):float(m.get_linear(v)) for v in m.variables},
            {tuple(sorted((repr(u),repr(v)))):float(b) for u,v,b in m.iter_quadratic()},float(m.offset),
            {repr(v):(m.vartype(v).name,float(m.lower_bound(v)),float(m.upper_bound(v))) for v in m.variables})
DEF={'BINARY':(0.0,1.0),'SPIN':(-1.0,1.0),'INTEGER':(0.0,float(2**53-1)),'REAL':(0.0,1e30)}
for seed in range(int(sys.argv[1]),int(sys.argv[2])):
    r=random.Random(seed)
    m=QM(dtype=r.choice([np.float64,np.float32])); ref=Ref(); log=[]
    for step in range(r.randint(1,30)):
        op=r.choice(['add_variable','add_linear','set_linear','add_quadratic','set_quadratic','remove_variable','remove_interaction','scale','offset','relabel','change_vartype','flip','fix','update','set_lb','set_ub','spin_to_binary','relabel_ints','add_linear_default','add_quadratic_from','add_variables_from_model'])
        u,v=r.choice(LAB),r.choice(LAB); b=q(r); vt=r.choice(['BINARY','SPIN','INTEGER','REAL'])
        lb=r.choice([None,-2,0,1]); ub=r.choice([None,3,7,0.5])
        before=snap(m); log.append((op,u,v,b,vt,lb,ub))
        exp_err=False
        R=copy.deepcopy(ref)
        try:
            if op=='add_variable':
                # expected semantics
                if u in R.info:
                    ovt,olb,oub=R.info[u]
                    if ovt!=vt: exp_err=True
                    elif vt in('INTEGER','REAL') and ((lb is not None and lb!=olb) or (ub is not None and ub!=oub)): exp_err=True
                else:
                    l=DEF[vt][0] if (lb is None or vt in('BINARY','SPIN')) else float(lb); h=DEF[vt][1] if (ub is None or vt in('BINARY','SPIN')) else float(ub)
                    if l>h: exp_err=True
                    elif vt=='INTEGER' and np.ceil(l)>np.floor(h): exp_err=True
                    else: R.order.append(u); R.lin[u]=0.0; R.info[u]=(vt,l,h)
                m.add_variable(vt,u,lower_bound=lb,upper_bound=ub)
            elif op in('add_linear','set_linear'):
                if u not in R.info: exp_err=True
                else: R.lin[u]=(R.lin[u]+b) if op=='add_linear' else b
                getattr(m,op)(u,b)
            elif op=='add_linear_default':
                if u not in R.info:
                    R.order.append(u); R.lin[u]=0.0; R.info[u]=(vt,)+DEF[vt]
                R.lin[u]+=b
                m.add_linear(u,b,default_vartype=vt)
            elif op in('add_quadratic','set_quadratic'):
                if u not in R.info or v not in R.info: exp_err=True
                elif u==v and R.info[u][0] in('BINARY','SPIN'): exp_err=True
                elif 'REAL' in (R.info[u][0],R.info[v][0]) and not dimod.REAL_INTERACTIONS: exp_err=True
                else:
                    k=R.key(u,v); R.quad[k]=(R.quad.get(k,0.0)+b) if op=='add_quadratic' else b
                getattr(m,op)(u,v,b)
            elif op=='add_quadratic_from':
                pairs=[(r.choice(LAB),r.choice(LAB),q(r)) for _ in range(2)]
                ok=True
                for a,c,x in pairs:
                    if a not in R.info or c not in R.info or (a==c and R.info[a][0] in('BINARY','SPIN')) or 'REAL' in (R.info.get(a,('',))[0],R.info.get(c,('',))[0]): ok=False; break
                    k=R.key(a,c); R.quad[k]=R.quad.get(k,0.0)+x
                if not ok: exp_err='partial'
                m.add_quadratic_from(pairs)
            elif op=='remove_variable':
                if u not in R.info: exp_err=True
                else:
                    R.order.remove(u); del R.lin[u]; del R.info[u]; R.quad={k:x for k,x in R.quad.items() if u not in (k if isinstance(k,tuple) else tuple(k))}
                m.remove_variable(u)
            elif op=='remove_interaction':
                k=R.key(u,v)
                if u not in R.info or v not in R.info or k not in R.quad: exp_err=True
                else: del R.quad[k]
                m.remove_interaction(u,v)
            elif op=='scale':
                R.off*=b; R.lin={k:x*b for k,x in R.lin.items()}; R.quad={k:x*b for k,x in R.quad.items()}
                m.scale(b)
            elif op=='offset': R.off=b; m.offset=b
            elif op=='relabel':
                if not R.order: continue
                ks=r.sample(R.order,r.randint(1,len(R.order))); tg=[r.choice(LAB+['z',9]) for _ in ks]; mp=dict(zip(ks,tg))
                newo=[mp.get(x,x) for x in R.order]
                if len(set(newo))!=len(newo) or len(set(tg))!=len(tg): exp_err=True
                else:
                    f=lambda x: mp.get(x,x)
                    R.order=newo; R.lin={f(k):x for k,x in R.lin.items()}; R.info={f(k):x for k,x in R.info.items()}
                    R.quad={(R.key(*[f(a) for a in (k if isinstance(k,tuple) else tuple(k))])):x for k,x in R.quad.items()}
                m.relabel_variables(mp)
            elif op=='relabel_ints':
                mp={x:i for i,x in enumerate(R.order)}
                f=lambda x: mp[x]
                R.order=[f(x) for x in R.order]; R.lin={f(k):x for k,x in R.lin.items()}; R.info={f(k):x for k,x in R.info.items()}
                R.quad={(R.key(*[f(a) for a in (k if isinstance(k,tuple) else tuple(k))])):x for k,x in R.quad.items()}
                m.relabel_variables_as_integers()
            elif op in('flip','fix','change_vartype','spin_to_binary','update','set_lb','set_ub','add_variables_from_model'):
                # semantic (energy) check instead of structural
                if op=='fix':
                    if u not in R.info: exp_err=True
                    val=r.choice([-1,0,1,2])
                    ref_m=copy.deepcopy(m); m.fix_variable(u,val)
                    vs=list(m.variables)
                    for _ in range(4):
                        s={x:r.choice([-1,0,1,3]) for x in vs}; full=dict(s); full[u]=val
                        if abs(float(m.energy(s)) - float(ref_m.energy(full)))>1e-6: note('fix-energy',(seed,log)); break
                    ref=None
                elif op=='flip':
                    if u not in R.info or R.info[u][0] not in('BINARY','SPIN'): exp_err=True
                    ref_m=copy.deepcopy(m); m.flip_variable(u)
                    vs=list(m.variables)
                    for _ in range(4):
                        s={x:r.choice({'BINARY':[0,1],'SPIN':[-1,1]}.get(m.vartype(x).name,[-1,0,3])) for x in vs}; f2=dict(s); f2[u]=(-s[u] if m.vartype(u).name=='SPIN' else 1-s[u])
                        if abs(float(m.energy(s))-float(ref_m.energy(f2)))>1e-6: note('flip-energy',(seed,log)); break
                    ref=None
                elif op in('change_vartype','spin_to_binary'):
                    ref_m=copy.deepcopy(m)
                    if op=='spin_to_binary': new=m.spin_to_binary(inplace=r.random()<.5)
                    else:
                        if u not in R.info: exp_err=True
                        src=R.info.get(u,('?',))[0]
                        if (src,vt) not in [('SPIN','BINARY'),('BINARY','SPIN'),('SPIN','INTEGER'),('BINARY','INTEGER')] and src!=vt: exp_err=True
                        m.change_vartype(vt,u); new=m
                    vs=list(new.variables)
                    for _ in range(4):
                        s={x:r.choice({'BINARY':[0,1],'SPIN':[-1,1]}.get(ref_m.vartype(x).name,[0,1,3])) for x in vs}
                        c={}
                        for x in vs:
                            a,bb=ref_m.vartype(x).name,new.vartype(x).name
                            c[x]=(s[x]+1)//2 if (a=='SPIN' and bb in('BINARY','INTEGER')) else (2*s[x]-1 if (a=='BINARY' and bb=='SPIN') else s[x])
                        if abs(float(new.energy(c))-float(ref_m.energy(s)))>1e-6: note(op+'-energy',(seed,log)); break
                    m=new if op=='spin_to_binary' else m
                    ref=None
                elif op=='update':
                    other=QM();
                    for _ in range(r.randint(0,3)):
                        l=r.choice(LAB); ovt=r.choice(['BINARY','SPIN','INTEGER'])
                        try: other.add_variable(ovt,l); other.add_linear(l,q(r))
                        except Exception: pass
                    ol=list(other.variables)
                    if len(ol)>=2:
                        a,c=r.sample(ol,2); other.add_quadratic(a,c,q(r))
                    other.offset=q(r)
                    conflict=any(x in R.info and (R.info[x][0]!=other.vartype(x).name or R.info[x][1]!=other.lower_bound(x) or R.info[x][2]!=other.upper_bound(x)) for x in ol)
                    if conflict: exp_err=True
                    ref_m=copy.deepcopy(m); m.update(other)
                    vs=list(m.variables)
                    for _ in range(4):
                        s={x:r.choice([-1,0,1]) for x in vs}
                        e=float(ref_m.energy({x:s[x] for x in ref_m.variables}) if len(ref_m.variables) else ref_m.offset)+float(other.energy({x:s[x] for x in ol}) if ol else other.offset)
                        if abs(float(m.energy(s) if vs else m.offset)-e)>1e-6: note('update-energy',(seed,log)); break
                    ref=None
                elif op in('set_lb','set_ub'):
                    val=r.choice([-3,0,1,5,0.5])
                    if u not in R.info or R.info[u][0] in('BINARY','SPIN'): exp_err=True
                    else:
                        vt0,l0,h0=R.info[u]
                        l1,h1=(val,h0) if op=='set_lb' else (l0,val)
                        if l1>h1 or (vt0=='INTEGER' and np.ceil(l1)>np.floor(h1)): exp_err=True
                        else: R.info[u]=(vt0,float(l1),float(h1))
                    (m.set_lower_bound if op=='set_lb' else m.set_upper_bound)(u,val)
                elif op=='add_variables_from_model':
                    other=QM(); other.add_variable('INTEGER','nv1',lower_bound=1,upper_bound=4); other.add_variable('SPIN','nv2')
                    m.add_variables_from_model(other)
                    for x,inf in (('nv1',('INTEGER',1.0,4.0)),('nv2',('SPIN',-1.0,1.0))):
                        if x not in R.info: R.order.append(x); R.lin[x]=0.0; R.info[x]=inf
            if exp_err is True:
                note('no-error-'+op,(seed,log[-1],before))
                break
            if ref is None or op in('fix','flip','change_vartype','spin_to_binary','update'):
                # resync reference from model
                ref=Ref(); ref.order=list(m.variables); ref.lin={x:float(m.get_linear(x)) for x in m.variables}; ref.info={x:(m.vartype(x).name,float(m.lower_bound(x)),float(m.upper_bound(x))) for x in m.variables}
                ref.quad={ref.key(a,c):float(x) for a,c,x in m.iter_quadratic()}; ref.off=float(m.offset)
            else:
                ref=R
                if exp_err!='partial' and snap(m)!=ref.snapshot(): note('state-'+op,(seed,log[-1],snap(m),ref.snapshot())); break
                if exp_err=='partial':
                    ref=Ref(); ref.order=list(m.variables); ref.lin={x:float(m.get_linear(x)) for x in m.variables}; ref.info={x:(m.vartype(x).name,float(m.lower_bound(x)),float(m.upper_bound(x))) for x in m.variables}
                    ref.quad={ref.key(a,c):float(x) for a,c,x in m.iter_quadratic()}; ref.off=float(m.offset)
        except (ValueError,TypeError,KeyError) as e:
            if snap(m)!=before and exp_err!='partial': note('changed-on-raise-'+op,(seed,log[-1],type(e).__name__,str(e)[:60])); break
            if exp_err is False: note('unexpected-error-'+op+'-'+type(e).__name__,(seed,log[-1],str(e)[:80],before)); break
            if ref is None:
                ref=Ref(); ref.order=list(m.variables); ref.lin={x:float(m.get_linear(x)) for x in m.variables}; ref.info={x:(m.vartype(x).name,float(m.lower_bound(x)),float(m.upper_bound(x))) for x in m.variables}
                ref.quad={ref.key(a,c):float(x) for a,c,x in m.iter_quadratic()}; ref.off=float(m.offset)
        except Exception as e:
            note('EXC-'+op+'-'+type(e).__name__,(seed,traceback.format_exc().splitlines()[-3:])); break
for k,v in sorted(issues.items()): print(k,str(v)[:500])
print('kinds',len(issues))
