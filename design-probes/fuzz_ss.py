import random, sys, warnings, traceback, copy
warnings.simplefilter('ignore')
import numpy as np, dimod
from dimod import SampleSet
issues={}
def note(k,d):
    if k not in issues: issues[k]=d
LAB=[0,1,2,'a','b',('t',1),5]
def mk(r):
    vt=r.choice(['SPIN','BINARY','INTEGER'])
    n=r.randint(0,4); m=r.randint(0,6)
    labels=r.sample(LAB,n)
    dom={'SPIN':[-1,1],'BINARY':[0,1],'INTEGER':[-3,0,2,7]}[vt]
    rows=[[r.choice(dom) for _ in range(n)] for _ in range(m)]
    if m and r.random()<.5:
        for _ in range(r.randint(1,3)): rows[r.randrange(m)]=list(rows[r.randrange(m)])
    en=[r.randint(-4,4)/2 for _ in range(m)]
    occ=[r.randint(1,3) for _ in range(m)]
    kw={}
    if r.random()<.5: kw['extra']=[r.randint(0,9) for _ in range(m)]
    ss=SampleSet.from_samples((np.array(rows,dtype=r.choice([np.int8,np.int32,float])).reshape(m,n),labels), vt, energy=en, num_occurrences=occ, sort_labels=r.random()<.5, info={'k':[1,2]}, **kw)
    return ss
def table(ss):
    vs=list(ss.variables)
    out=[]
    for i in range(len(ss.record)):
        rec=ss.record[i]
        out.append((tuple(sorted(((repr(v), float(rec.sample[j])) for j,v in enumerate(vs)))), float(rec.energy), int(rec.num_occurrences)) + tuple(float(rec[f]) for f in ss.record.dtype.names if f not in ('sample','energy','num_occurrences')))
    return out
for seed in range(int(sys.argv[1]), int(sys.argv[2])):
    r=random.Random(seed)
    try:
        ss=mk(r)
    except Exception as e:
        note('MK-'+type(e).__name__,(seed,traceback.format_exc().splitlines()[-2:])); continue
    t=table(ss); raw=ss.record.tobytes()
    op=r.choice(['aggregate','slice','truncate','lowest','filter','relabel','keep','drop','append','concat','change','copy','adv','first','samples_n'])
    try:
        if op=='aggregate':
            a=ss.aggregate(); ta=table(a)
            exp={}; order=[]
            for row in t:
                k=row[0]
                if k not in exp: exp[k]=[row[0],row[1],0]+list(row[3:]); order.append(k)
                exp[k][2]+=row[2]
            if ta!=[tuple(exp[k]) for k in order]: note('aggregate',(seed,t,ta))
        elif op in('slice','truncate'):
            by=r.choice(['energy',None,'num_occurrences'])
            if op=='slice':
                args=[r.choice([None,-3,-1,0,1,2,5]) for _ in range(r.randint(1,3))]
                if len(args)==3 and args[2]==0: args[2]=None
                out=ss.slice(*args, sorted_by=by); sl=slice(*args)
            else:
                n=r.randint(0,5); out=ss.truncate(n, sorted_by=by); sl=slice(n)
            to=table(out)
            if by is None: exp=t[sl]; 
            else:
                key=(lambda row: row[1]) if by=='energy' else (lambda row: row[2])
                # any valid sort: check sorted keys and multiset
                srt=sorted(t,key=key); keys=[key(x) for x in srt][sl]
                if [key(x) for x in to]!=keys: note(op+'-keys',(seed,by,t,to))
                exp=None
                from collections import Counter
                if Counter(to)-Counter(t): note(op+'-rows',(seed,))
            if exp is not None and to!=exp: note(op+'-none',(seed,t,to,exp))
        elif op=='lowest':
            out=table(ss.lowest())
            if t:
                m=min(x[1] for x in t); exp=[x for x in t if abs(x[1]-m)<=1e-8+1e-5*abs(m)]
                if out!=exp: note('lowest',(seed,))
        elif op=='filter':
            thr=r.randint(-2,2)/2; out=table(ss.filter(lambda d: d.energy<=thr))
            if out!=[x for x in t if x[1]<=thr]: note('filter',(seed,))
        elif op=='relabel':
            vs=list(ss.variables)
            if not vs: continue
            ks=r.sample(vs,r.randint(1,len(vs))); m=dict(zip(ks,r.sample(['A','B','C','D',9,8,7],len(ks))))
            out=ss.relabel_variables(m, inplace=False); to=table(out)
            exp=[(tuple(sorted((repr(m.get(eval(k),eval(k))),v) for k,v in row[0])),)+row[1:] for row in t]
            if to!=exp: note('relabel',(seed,m,t,to))
            if table(ss)!=t: note('relabel-mutates',(seed,))
        elif op in('keep','drop'):
            vs=list(ss.variables); sub=r.sample(vs,r.randint(0,len(vs)))
            out=dimod.keep_variables(ss,sub) if op=='keep' else dimod.drop_variables(ss,sub)
            keep=set(map(repr,sub)) if op=='keep' else set(map(repr,vs))-set(map(repr,sub))
            exp=[(tuple(kv for kv in row[0] if kv[0] in keep),)+row[1:] for row in t]
            if table(out)!=exp: note(op,(seed,sub,t,table(out)))
        elif op=='append':
            if not len(ss): continue
            new={'N1': r.choice([0,1]), 'N2': r.choice([0,1])}
            out=dimod.append_variables(ss,new)
            exp=[(tuple(sorted(row[0]+tuple((repr(k),float(v)) for k,v in new.items()))),)+row[1:] for row in t]
            if table(out)!=exp: note('append',(seed,))
        elif op=='concat':
            o2=mk(random.Random(seed+99))
            if set(map(repr,o2.variables))!=set(map(repr,ss.variables)) or o2.vartype is not ss.vartype or o2.record.dtype.names!=ss.record.dtype.names: continue
            out=dimod.concatenate((ss,o2))
            if table(out)!=t+table(o2): note('concat',(seed,t,table(o2),table(out)))
        elif op=='change':
            if ss.vartype.name not in('SPIN','BINARY'): continue
            tgt='BINARY' if ss.vartype.name=='SPIN' else 'SPIN'
            out=ss.change_vartype(tgt, energy_offset=1.5, inplace=False)
            f=(lambda x:(x+1)/2) if tgt=='BINARY' else (lambda x:2*x-1)
            exp=[(tuple((k,f(v)) for k,v in row[0]), row[1]+1.5)+row[2:] for row in t]
            if table(out)!=exp: note('change',(seed,))
            if table(ss)!=t: note('change-mutates',(seed,))
        elif op=='copy':
            c=ss.copy(); c.record.sample[:]=0 if len(c) else 0; c.record.energy[:]=9
            if table(ss)!=t: note('copy-alias',(seed,))
        elif op=='adv':
            out=dimod.append_data_vectors(ss, newf=list(range(len(ss))))
            if [x[:3] for x in table(out)]!=[x[:3] for x in t]: note('adv',(seed,))
        elif op=='first':
            if len(ss):
                f=ss.first
                if f.energy!=min(x[1] for x in t): note('first',(seed,))
        elif op=='samples_n':
            n=r.randint(0,4); sm=ss.samples(n)
            if len(sm)!=min(n,len(ss)): note('samples_n',(seed,))
        if ss.record.tobytes()!=raw and op not in ('copy',): note('receiver-changed-'+op,(seed,))
    except Exception as e:
        note('EXC-'+op+'-'+type(e).__name__,(seed,traceback.format_exc().splitlines()[-3:]))
for k,v in issues.items(): print(k,str(v)[:500])
print('kinds',len(issues))
