import random, sys, warnings, traceback, itertools
warnings.simplefilter('ignore')
import numpy as np, dimod
from dimod import *
issues={}
def note(k,d):
    if k not in issues: issues[k]=d
LAB=['a','b','c','d','e',0,1]
def q(r): return r.randint(-8,8)/4
def rpoly(r):
    vt=r.choice(['SPIN','BINARY']); n=r.randint(1,5); labs=r.sample(LAB,n); terms={}
    for _ in range(r.randint(1,6)):
        k=r.randint(0,min(5,n)); t=tuple(r.sample(labs,k)) if r.random()<.8 else tuple(r.choice(labs) for _ in range(k))
        terms[t]=terms.get(t,0)+q(r)
    return BinaryPolynomial(terms,vt)
def penergy(poly,s):
    e=0
    for t,b in poly.items():
        p=b
        for v in t: p*=s[v]
        e+=p
    return e
for seed in range(int(sys.argv[1]),int(sys.argv[2])):
    r=random.Random(seed)
    poly=rpoly(r); vs=sorted(poly.variables,key=repr)
    dom=[-1,1] if poly.vartype is dimod.SPIN else [0,1]
    which=r.choice(['exactpoly','hoc','hoc_keep','hoc_discard','scale','scale_ign','ptrunc','pfixed','mq','mqcqm','tospin','hising','hubo'])
    try:
        if which=='exactpoly':
            ss=ExactPolySolver().sample_poly(poly)
            if len(ss)!=(2**len(vs) if vs else 0): note('exactpoly-count',(seed,len(ss),len(vs)))
            for s,e in ss.data(['sample','energy']):
                if abs(penergy(poly,s)-e)>1e-9: note('exactpoly-energy',(seed,));break
        elif which.startswith('hoc'):
            kw=dict(penalty_strength=r.choice([1,3.5]), keep_penalty_variables=(which=='hoc_keep'), discard_unsatisfied=(which=='hoc_discard'))
            ss=HigherOrderComposite(ExactSolver()).sample_poly(poly, **kw)
            if not set(vs)<=set(ss.variables): note(which+'-vars',(seed,list(ss.variables),vs))
            if which!='hoc_keep' and set(ss.variables)!=set(vs): note(which+'-extra-vars',(seed,list(ss.variables),vs))
            for s,e in ss.data(['sample','energy']):
                if abs(penergy(poly,s)-e)>1e-9: note(which+'-energy',(seed,str(poly),dict(s),e,penergy(poly,s)));break
        elif which in('scale','scale_ign'):
            kw={}
            if r.random()<.5: kw['scalar']=r.choice([2,0.5,-1.5])
            else: kw['bias_range']=r.choice([1,2,(-1,2)])
            if which=='scale_ign': kw['ignored_terms']=[t for t in list(poly)[:1]]
            ss=PolyScaleComposite(ExactPolySolver()).sample_poly(poly, **kw)
            for s,e in ss.data(['sample','energy']):
                if abs(penergy(poly,s)-e)>1e-9: note(which+'-energy',(seed,str(poly),kw,dict(s),e,penergy(poly,s)));break
        elif which=='ptrunc':
            ss=PolyTruncateComposite(ExactPolySolver(),3).sample_poly(poly)
            for s,e in ss.data(['sample','energy']):
                if abs(penergy(poly,s)-e)>1e-9: note('ptrunc-energy',(seed,));break
        elif which=='pfixed':
            if not vs: continue
            fv={v:r.choice(dom) for v in r.sample(vs,r.randint(0,len(vs)))}
            ss=PolyFixedVariableComposite(ExactPolySolver()).sample_poly(poly, fixed_variables=fv)
            if set(ss.variables)!=set(vs): note('pfixed-vars',(seed,list(ss.variables),vs,fv))
            for s,e in ss.data(['sample','energy']):
                if any(s[v]!=x for v,x in fv.items() if v in s): note('pfixed-values',(seed,));break
                if set(s)==set(vs) and abs(penergy(poly,s)-e)>1e-9: note('pfixed-energy',(seed,str(poly),fv,dict(s),e,penergy(poly,s)));break
        elif which=='mq':
            st=r.choice([1,2.5]); bqm=make_quadratic(poly,st,poly.vartype)
            if any(len(k)>2 for k in []): pass
            red=bqm.info['reduction']
            aux=[d['auxiliary'] for d in red.values() if 'auxiliary' in d]
            prods={d['product']:uv for uv,d in red.items()}
            allv=list(bqm.variables)
            if len(allv)>12: continue
            # consistent assignments
            for vals in itertools.product(dom,repeat=len(vs)):
                s=dict(zip(vs,vals))
                # compute products in dependency order
                changed=True; guard=0
                while changed and guard<50:
                    changed=False; guard+=1
                    for p,(u,v) in prods.items():
                        if p not in s and u in s and v in s: s[p]=s[u]*s[v]; changed=True
                if any(p not in s for p in prods): note('mq-unresolved',(seed,)); break
                best=min(float(bqm.energy({**s,**dict(zip(aux,a))})) for a in itertools.product(dom,repeat=len(aux)))
                if abs(best-penergy(poly,s))>1e-9: note('mq-consistent',(seed,str(poly),s,best,penergy(poly,s))); break
            # penalty nonneg: any assignment
            if len(allv)<=10:
                for vals in itertools.product(dom,repeat=len(allv)):
                    s=dict(zip(allv,vals))
                    base=penergy(poly,s)
                    # reduced objective value at s (without penalties) unknown; check E >= min over? skip
                    break
        elif which=='mqcqm':
            cqm=make_quadratic_cqm(poly,poly.vartype)
            for lbl,c in cqm.constraints.items(): pass
        elif which=='tospin':
            other=poly.to_spin() if poly.vartype is dimod.BINARY else poly.to_binary()
            for vals in itertools.product(dom,repeat=len(vs)):
                s=dict(zip(vs,vals)); o={v:(2*x-1 if other.vartype is dimod.SPIN else (x+1)//2) for v,x in s.items()}
                if abs(penergy(poly,s)-penergy(other,o))>1e-9: note('convert',(seed,)); break
        elif which=='hising':
            h,J,off=poly.to_hising(); ss=ExactPolySolver().sample_hising(h,J)
            ref=BinaryPolynomial.from_hising(h,J)
            for s,e in ss.data(['sample','energy']):
                if abs(penergy(ref,s)-e)>1e-9: note('hising',(seed,));break
        elif which=='hubo':
            H,off=poly.to_hubo(); ss=ExactPolySolver().sample_hubo(H)
            ref=BinaryPolynomial.from_hubo(H)
            for s,e in ss.data(['sample','energy']):
                if abs(penergy(ref,s)-e)>1e-9: note('hubo',(seed,));break
    except Exception as e:
        note('EXC-'+which+'-'+type(e).__name__,(seed,str(poly)[:200],traceback.format_exc().splitlines()[-3:]))
for k,v in issues.items(): print(k,str(v)[:700])
print('kinds',len(issues))
