import subprocess, sys
found={}
for seed in range(int(sys.argv[1]),int(sys.argv[2])):
    skip=[]
    for attempt in range(15):
        try:
            p=subprocess.run(['/venv/bin/python','/var/tmp/probe/crash_child.py',str(seed),','.join(map(str,skip))],capture_output=True,text=True,timeout=150)
            out=p.stdout; rc=p.returncode; err=p.stderr
        except subprocess.TimeoutExpired as e:
            out=(e.stdout or b'').decode() if isinstance(e.stdout,bytes) else (e.stdout or ''); rc='TIMEOUT'; err=''
        lines=out.splitlines()
        for l in lines:
            if 'OTHER-EXC' in l: found.setdefault('other-exc '+l.strip(),seed)
        if lines and lines[-1]=='DONE': break
        calls=[l for l in lines if l.startswith('CALL')]
        if not calls: found.setdefault('nostart',(seed,err[-200:])); break
        last=calls[-1].split()
        found.setdefault(f'CRASH rc={rc} {last[2]}',(seed,int(last[1]),err.strip().splitlines()[-1:] ))
        skip.append(int(last[1]))
for k,v in found.items(): print(k,v)
print('kinds',len(found))
