import random, sys, warnings, traceback, copy
warnings.simplefilter('ignore')
import numpy as np, dimod
from dimod import Binary, Spin, Integer, Real, BQM, QM, CQM, quicksum
KIND={'x':'B','y':'B','s':'S','t':'S','i':'I','j':'I'}
def var(l):
    return {'B':Binary,'S':Spin}.get(KIND[l], lambda l: Integer(l, lower_bound=-3, upper_bound=4))(l)
DOM={'B':[0,1],'S':[-1,1],'I':[-3,0,2,4]}
issues={}
def note(k,d):
    if k not in issues: issues[k]=d
def deg(e): return 0 if isinstance(e,(int,float)) else (1 if e.is_linear() else 2)
def gen(r, depth):
    # returns (model_or_number, evalfn, desc)
    if depth==0 or r.random()<.25:
        if r.random()<.25:
            c=r.randint(-8,8)/4; return c,(lambda s,c=c:c),repr(c)
        l=r.choice(list(KIND)); return var(l),(lambda s,l=l:s[l]),l
    op=r.choice(['+','-','*','neg','sc','div','sq','r+','r-','r*','qs','iadd','isub','imul'])
    a,fa,da=gen(r,depth-1)
    if op in('neg',):
        return (-a),(lambda s:-fa(s)),f'-({da})'
    if op=='sc':
        c=r.randint(-8,8)/4; return a*c if r.random()<.5 else c*a,(lambda s:c*fa(s)),f'{c}*({da})'
    if op=='div':
        c=r.choice([2,4,-2,0.5]); 
        if isinstance(a,(int,float)): return a/c,(lambda s:fa(s)/c),f'({da})/{c}'
        return a/c,(lambda s:fa(s)/c),f'({da})/{c}'
    if op=='sq':
        if isinstance(a,(int,float)) or deg(a)>1: return a,fa,da
        return a**2,(lambda s:fa(s)**2),f'({da})**2'
    b,fb,db=gen(r,depth-1)
    if op in('+','r+','iadd'):
        if op=='iadd' and not isinstance(a,(int,float)):
            a=copy.deepcopy(a); a+=b; return a,(lambda s:fa(s)+fb(s)),f'({da})+=({db})'
        return (a+b),(lambda s:fa(s)+fb(s)),f'({da})+({db})'
    if op in('-','r-','isub'):
        if op=='isub' and not isinstance(a,(int,float)):
            a=copy.deepcopy(a); a-=b; return a,(lambda s:fa(s)-fb(s)),f'({da})-=({db})'
        return (a-b),(lambda s:fa(s)-fb(s)),f'({da})-({db})'
    if op in('*','r*','imul'):
        if deg(a)+deg(b)>2: return (a+b),(lambda s:fa(s)+fb(s)),f'({da})+({db})'
        if op=='imul' and not isinstance(a,(int,float)) and isinstance(b,(int,float)):
            a=copy.deepcopy(a); a*=b; return a,(lambda s:fa(s)*fb(s)),f'({da})*=({db})'
        return (a*b),(lambda s:fa(s)*fb(s)),f'({da})*({db})'
    if op=='qs':
        return quicksum([a,b,a]),(lambda s:2*fa(s)+fb(s)),f'qs({da},{db},{da})'
def snap(m):
    if isinstance(m,(int,float)): return m
    return (dict((repr(k),float(v)) for k,v in m.linear.items()), dict((repr(k),float(v)) for k,v in m.quadratic.items()), float(m.offset))
for seed in range(int(sys.argv[1]), int(sys.argv[2])):
    r=random.Random(seed)
    try:
        m,f,d=gen(r,4)
    except Exception as e:
        note('GEN-'+type(e).__name__+'-'+str(e)[:60],(seed,)); continue
    if isinstance(m,(int,float)): continue
    for _ in range(8):
        s={l:r.choice(DOM[KIND[l]]) for l in KIND}
        sub={v:s[v] for v in m.variables}
        try:
            e=float(m.energy(sub))
        except Exception as ex:
            note('ENERGY-'+type(ex).__name__,(seed,d)); break
        if abs(e-f(s))>1e-9: note('value',(seed,d,s,e,f(s),str(m))); break
    # vartype/bounds kept
    for v in m.variables:
        vt = m.vartype if not callable(m.vartype) else m.vartype(v)
        exp={'B':'BINARY','S':'SPIN','I':'INTEGER'}[KIND[v]]
        if vt.name!=exp: note('vartype',(seed,d,v,vt.name))
        if KIND[v]=='I' and (m.lower_bound(v)!=-3 or m.upper_bound(v)!=4): note('bounds',(seed,d,v))
for k,v in issues.items(): print(k,str(v)[:600])
print('kinds',len(issues))
