import random, sys, warnings, traceback, itertools
warnings.simplefilter('ignore')
import numpy as np, dimod
LABELS = [0,1,2,5,'a','b',('a',1)]
def q(r): return r.randint(-16,16)/8
def energies(b):
    vs = list(b.variables)
    vals = (-1,1) if b.vartype is dimod.SPIN else (0,1)
    out = {}
    for s in itertools.product(vals, repeat=len(vs)):
        out[s] = float(b.energy(dict(zip(vs,s)))) if vs else float(b.offset)
    return vs, out
def snap(b):
    return ({repr(v): float(b.get_linear(v)) for v in b.variables},
            {tuple(sorted((repr(u),repr(v)))): float(x) for u,v,x in b.iter_quadratic()}, float(b.offset), b.vartype.name)
issues = {}
def note(kind, detail):
    if kind not in issues: issues[kind]=detail
def build(r, dtype):
    vt = r.choice(['SPIN','BINARY'])
    b = dimod.BQM(vt, dtype=dtype)
    for _ in range(r.randint(0,4)): b.add_linear(r.choice(LABELS), q(r))
    for _ in range(r.randint(0,4)):
        u,v = r.sample(LABELS,2); b.add_quadratic(u,v,q(r))
    b.offset = q(r)
    return b
for seed in range(int(sys.argv[1]), int(sys.argv[2])):
    r = random.Random(seed)
    dtype = r.choice([np.float64, np.float32, object])
    b = build(r, dtype)
    if b.num_variables > 6: continue
    vs, en = energies(b)
    op = r.choice(['contract','flip','fix','scale_ign','normalize','eqc','change','view_energy','update_other_vt','copy_rel','to_ising','to_qubo','from_numpy','spin_view_edit','remove_via_view'])
    try:
        if op=='contract' and len(vs)>=2:
            u,v = r.sample(vs,2); c = b.copy(); c.contract_variables(u,v)
            vs2, en2 = energies(c)
            for s,e in en2.items():
                full = dict(zip(vs2,s)); full[v]=full[u]
                if abs(en[tuple(full[x] for x in vs)]-e)>1e-9: note('contract-energy',(seed,u,v)); break
        elif op=='flip' and vs:
            u = r.choice(vs); c=b.copy(); c.flip_variable(u)
            vs2,en2 = energies(c)
            for s,e in en2.items():
                full=dict(zip(vs2,s)); full[u] = -full[u] if b.vartype is dimod.SPIN else 1-full[u]
                if abs(en[tuple(full[x] for x in vs)]-e)>1e-9: note('flip-energy',(seed,u)); break
        elif op=='fix' and vs:
            u = r.choice(vs); val = r.choice([-1,0,1,2]); c=b.copy(); c.fix_variable(u,val)
            vs2,en2 = energies(c)
            for s,e in en2.items():
                full=dict(zip(vs2,s)); full[u]=val
                if abs(float(b.energy(full))-e)>1e-9: note('fix-energy',(seed,u,val)); break
        elif op=='scale_ign' and vs:
            ig = r.sample(vs, r.randint(0,len(vs))); c=b.copy(); sc=q(r); c.scale(sc, ignored_variables=ig, ignore_offset=r.random()<.5)
            for v in vs:
                exp = float(b.get_linear(v))*(1 if v in ig else sc)
                if abs(float(c.get_linear(v))-exp)>1e-9: note('scale-ign',(seed,)); break
        elif op=='eqc':
            terms=[(l, r.randint(-3,3)) for l in r.sample(LABELS, r.randint(0,4))]
            lam=r.randint(1,3); C=r.randint(-3,3); c=b.copy()
            for tgt in [c, None]:
                pass
            which = r.choice(['self','spin','binary'])
            tgt = c if which=='self' else getattr(c, which)
            tgt.add_linear_equality_constraint(terms, lam, C)
            vs2,en2 = energies(c)
            for s,e in en2.items():
                full=dict(zip(vs2,s))
                # values as seen by target vartype
                def val(v):
                    x=full[v]
                    tv = tgt.vartype
                    if tv is c.vartype: return x
                    return (2*x-1) if tv is dimod.SPIN else (x+1)//2
                base = float(b.energy({v: full[v] for v in vs})) if vs else float(b.offset)
                exp = base + lam*(sum(a*val(v) for v,a in terms)+C)**2
                if abs(exp-e)>1e-9: note('eqc-'+which+'-'+str(dtype.__name__ if hasattr(dtype,'__name__') else dtype),(seed,terms,lam,C,s,exp,e)); break
        elif op=='change':
            c=b.change_vartype('SPIN' if b.vartype is dimod.BINARY else 'BINARY', inplace=False)
            vs2,en2=energies(c)
            for s,e in en2.items():
                full=dict(zip(vs2,s)); o={v:(2*x-1 if c.vartype is dimod.BINARY else (x+1)//2) for v,x in full.items()}
                if abs(en[tuple(o[x] for x in vs)]-e)>1e-9: note('change-energy',(seed,)); break
            d=c.change_vartype(b.vartype, inplace=False)
            if snap(d)!=snap(b): note('change-roundtrip',(seed,snap(d),snap(b)))
            if snap(b)!=snap(build(random.Random(seed) if False else r, dtype)) and False: pass
        elif op=='view_energy':
            vw = b.spin if b.vartype is dimod.BINARY else b.binary
            for s,e in en.items():
                o={v:(2*x-1 if vw.vartype is dimod.SPIN else (x+1)//2) for v,x in zip(vs,s)}
                if abs(float(vw.energy(o))-e)>1e-9: note('view-energy',(seed,)); break
            cv = b.change_vartype(vw.vartype, inplace=False)
            if ({repr(k):float(x) for k,x in vw.linear.items()}, {tuple(sorted(map(repr,k))):float(x) for k,x in vw.quadratic.items()}, float(vw.offset)) != snap(cv)[:3]: note('view-coeffs',(seed,))
        elif op=='spin_view_edit':
            vw = b.spin if b.vartype is dimod.BINARY else b.binary
            c = b.change_vartype(vw.vartype, inplace=False)
            for _ in range(3):
                k=r.choice(['al','aq','sl','sq','off','rv','ri'])
                u,v = r.sample(LABELS,2); x=q(r)
                for t in (vw,c):
                    try:
                        if k=='al': t.add_linear(u,x)
                        elif k=='aq': t.add_quadratic(u,v,x)
                        elif k=='sl': t.set_linear(u,x)
                        elif k=='sq': t.set_quadratic(u,v,x)
                        elif k=='off': t.offset = x
                        elif k=='rv': t.remove_variable(u)
                        elif k=='ri': t.remove_interaction(u,v)
                    except ValueError: pass
            back = c.change_vartype(b.vartype, inplace=False)
            if snap(back)!=snap(b): note('view-edit',(seed,snap(back),snap(b)))
        elif op=='to_ising':
            h,J,off = b.to_ising(); nb = dimod.BQM.from_ising(h,J,off)
            if snap(nb.change_vartype(b.vartype,inplace=False))!=snap(b): 
                # zero interactions dropped? compare energies
                vs2,en2 = energies(nb.change_vartype(b.vartype,inplace=False))
                if set(vs2)!=set(vs): note('to_ising-vars',(seed,vs,vs2))
        elif op=='to_qubo':
            Q,off = b.to_qubo(); nb = dimod.BQM.from_qubo(Q,off).change_vartype(b.vartype,inplace=False)
            for s,e in en.items():
                full=dict(zip(vs,s))
                if set(nb.variables)==set(vs) and abs(float(nb.energy(full))-e)>1e-9: note('to_qubo-energy',(seed,)); break
        elif op=='from_numpy' and dtype is not object:
            l,(i,j,qq),off,lab = b.to_numpy_vectors(return_labels=True)
            nb = dimod.BQM.from_numpy_vectors(l,(i,j,qq),off,b.vartype,variable_order=lab, dtype=dtype)
            if snap(nb)!=snap(b): note('numpy-roundtrip',(seed,snap(nb),snap(b)))
        elif op=='copy_rel' and vs:
            m = {v: r.choice(LABELS+['z']) for v in r.sample(vs, r.randint(1,len(vs)))}
            s0 = snap(b)
            try: c = b.relabel_variables(m, inplace=False)
            except ValueError: c=None
            if snap(b)!=s0: note('relabel-copy-mutates',(seed,m))
    except Exception as e:
        note('EXC-'+op+'-'+type(e).__name__, (seed, traceback.format_exc().splitlines()[-3:]))
for k,v in issues.items(): print(k, str(v)[:600])
print('kinds', len(issues))
