import random, sys, warnings, traceback, itertools, copy
warnings.simplefilter('ignore')
import numpy as np, dimod
from dimod import *
import dimod.lp as lp
import dimod.generators as gen
issues={}
def note(k,d):
    if k not in issues: issues[k]=d
def q(r): return r.randint(-8,8)/4
def EV(expr, s):
    e=float(expr.offset)
    for v,b in expr.iter_linear(): e+=float(b)*s[v]
    for a,c,b in expr.iter_quadratic(): e+=float(b)*s[a]*s[c]
    return e
# ---------- C18 equality pairs
def pool(r):
    x,y=Binaries('xy'); a,b=Binaries('ab'); s,t=Spins('st'); i,j=Integers('ij')
    items=[x+y, a+b, x+2*y, x+y+1, x*y, a*b, s+t, s*t, i+j, i*j, i*i, x+i, (x+y)*1.0, BQM(x+y,dtype=np.float32), BQM(x+y,dtype=object), 3, 3.0, QM.from_bqm(x+y), QM.from_bqm(s+t), QM.from_bqm(a+b), 0*x+3, BQM('SPIN'), BQM('BINARY'), QM()]
    c1=CQM(); c1.set_objective(x+y); c1.add_constraint(x+y<=1,label='c')
    c2=CQM(); c2.set_objective(a+b); c2.add_constraint(a+b<=1,label='c')
    c3=CQM(); c3.set_objective(x+y); c3.add_constraint(x+y>=1,label='c')
    c4=CQM(); c4.set_objective(x+y); c4.add_constraint(x+y<=1,label='d')
    c5=CQM(); c5.set_objective(x+y); c5.add_constraint(x+y<=2,label='c')
    items+=[c1,c2,c3,c4,c5,c1.objective,c2.objective,c1.constraints['c'].lhs,c3.constraints['c'].lhs, copy.deepcopy(c1), 'str', None]
    return items
items=pool(None)
def canon(m):
    if isinstance(m,(int,float)): return ('num',float(m))
    if isinstance(m,CQM):
        return ('cqm',canon(m.objective),tuple(sorted((repr(l),c.sense.value,float(c.rhs),canon(c.lhs)) for l,c in m.constraints.items())))
    try:
        vt=(lambda v:m.vartype(v).name) if callable(m.vartype) else (lambda v:m.vartype.name)
        return ('m',tuple(sorted((repr(v),vt(v),float(m.get_linear(v))) for v in m.variables)),tuple(sorted((tuple(sorted((repr(u),repr(v)))),float(b)) for u,v,b in m.iter_quadratic())),float(m.offset))
    except Exception: return ('other',repr(m))
def expect(a,b):
    ca,cb=canon(a),canon(b)
    if ca[0]=='cqm' or cb[0]=='cqm': return ca==cb
    if ca[0]=='num' and cb[0]=='m': return not cb[1] and cb[3]==ca[1] and not cb[2]
    if cb[0]=='num' and ca[0]=='m': return not ca[1] and ca[3]==cb[1] and not ca[2]
    if ca[0]=='other' or cb[0]=='other': return False
    return ca==cb
for ia,a in enumerate(items):
    if not hasattr(a,'is_equal'): continue
    for ib,b in enumerate(items):
        try:
            got=a.is_equal(b)
            if not isinstance(got,(bool,np.bool_)): note('iseq-nonbool',(ia,ib,type(got)))
            if bool(got)!=expect(a,b): note(f'iseq-wrong-{type(a).__name__}-{type(b).__name__}',(ia,ib,got,str(a)[:80],str(b)[:80]))
            if hasattr(b,'is_equal'):
                try:
                    if bool(b.is_equal(a))!=bool(got): note(f'iseq-asym-{type(a).__name__}-{type(b).__name__}',(ia,ib))
                except Exception: pass
        except Exception as e:
            note(f'iseq-EXC-{type(a).__name__}-{type(b).__name__}-{type(e).__name__}',(ia,ib,str(e)[:80]))
        try:
            if hasattr(a,'is_almost_equal'):
                g2=a.is_almost_equal(b)
                if bool(g2)!=expect(a,b): note(f'almost-wrong-{type(a).__name__}-{type(b).__name__}',(ia,ib,g2))
        except Exception as e:
            note(f'almost-EXC-{type(a).__name__}-{type(b).__name__}-{type(e).__name__}',(ia,ib,str(e)[:80]))
print('--- C18'); 
for k,v in issues.items(): print(k,str(v)[:300])
issues.clear()
# ---------- C12 LP fuzz
for seed in range(int(sys.argv[1]),int(sys.argv[2])):
    r=random.Random(seed)
    names=['x','y','i','j','rr','Long_'+'n'*40,"q'!#",'A1']
    kinds={n:r.choice(['B','I','R']) for n in names}
    def var(n):
        k=kinds[n]
        return Binary(n) if k=='B' else Integer(n,lower_bound=r_lb[n],upper_bound=r_ub[n]) if k=='I' else Real(n,lower_bound=r_lb[n],upper_bound=r_ub[n])
    r_lb={n:r.choice([0,-3,1]) for n in names}; r_ub={n:r.choice([5,8,2.5 if kinds[n]=='R' else 7]) for n in names}
    use=r.sample(names,r.randint(1,5))
    def rexpr(quad=True):
        e=0*var(use[0])+(q(r) if r.random()<.5 else 0)
        for _ in range(r.randint(0,4)): e=e+q(r)*var(r.choice(use))
        if quad:
            for _ in range(r.randint(0,3)):
                a,b=r.choice(use),r.choice(use)
                if kinds[a]=='R' or kinds[b]=='R': continue
                if a==b and kinds[a]=='B': continue
                e=e+q(r)*var(a)*var(b)
        return e
    try:
        cqm=CQM(); cqm.set_objective(rexpr())
        for ci in range(r.randint(0,3)): cqm.add_constraint_from_model(rexpr(), r.choice(['<=','>=','==']), q(r), label=r.choice(['c','con_','K'])+str(ci))
        text=lp.dumps(cqm); new=lp.loads(text)
        if set(new.variables)!=set(cqm.variables): note('lp-vars',(seed,sorted(map(str,new.variables)),sorted(map(str,cqm.variables)),text)); continue
        for v in cqm.variables:
            if (cqm.vartype(v),float(cqm.lower_bound(v)),float(cqm.upper_bound(v)))!=(new.vartype(v),float(new.lower_bound(v)),float(new.upper_bound(v))): note('lp-varinfo',(seed,v,cqm.vartype(v),cqm.lower_bound(v),cqm.upper_bound(v),new.vartype(v),new.lower_bound(v),new.upper_bound(v)))
        if set(new.constraints)!=set(cqm.constraints): note('lp-conlabels',(seed,list(new.constraints),list(cqm.constraints),text))
        for _ in range(5):
            s={v:r.choice([0,1]) if cqm.vartype(v).name=='BINARY' else r.choice([-3,0,2,5]) for v in cqm.variables}
            if abs(EV(cqm.objective,s)-EV(new.objective,s))>1e-9: note('lp-objective',(seed,s,EV(cqm.objective,s),EV(new.objective,s),text)); break
            for l,c in cqm.constraints.items():
                if l not in new.constraints: continue
                n=new.constraints[l]
                if n.sense!=c.sense or abs((EV(c.lhs,s)-float(c.rhs))-(EV(n.lhs,s)-float(n.rhs)))>1e-9: note('lp-constraint',(seed,l,str(c),str(n),text)); break
    except Exception as e:
        note('EXC-lp-'+type(e).__name__,(seed,traceback.format_exc().splitlines()[-3:]))
print('--- C12')
for k,v in issues.items(): print(k,str(v)[:900])
issues.clear()
# ---------- C17 gates
def gate_check(name,bqm,ins,outs,aux,fn,strength):
    vs=ins+outs
    for vals in itertools.product([0,1],repeat=len(vs)):
        s=dict(zip(vs,vals))
        for vt in ('BINARY','SPIN'):
            b=bqm.change_vartype(vt,inplace=False)
            conv=(lambda x:x) if vt=='BINARY' else (lambda x:2*x-1)
            e=min(float(b.energy({**{k:conv(v) for k,v in s.items()},**dict(zip(aux,[conv(a) for a in av]))})) for av in itertools.product([0,1],repeat=len(aux)))
            ok=tuple(s[o] for o in outs)==tuple(fn(*[s[i] for i in ins]))
            if ok and abs(e)>1e-9: note(name+'-valid-nonzero',(s,e,vt))
            if not ok and e<strength-1e-9: note(name+'-invalid-low',(s,e,vt,strength))
for st in (1.0,2.5,0.5):
    gate_check('and',gen.and_gate('a',('b',1),0,strength=st),['a',('b',1)],[0],[],lambda a,b:(a&b,),st)
    gate_check('or',gen.or_gate('a','b','c',strength=st),['a','b'],['c'],[],lambda a,b:(a|b,),st)
    gate_check('xor',gen.xor_gate('a','b','c','x',strength=st),['a','b'],['c'],['x'],lambda a,b:(a^b,),st)
    gate_check('half',gen.halfadder_gate('a','b','s','c',strength=st),['a','b'],['s','c'],[],lambda a,b:((a+b)%2,(a+b)//2),st)
    gate_check('full',gen.fulladder_gate('a','b','d','s','c',strength=st),['a','b','d'],['s','c'],[],lambda a,b,d:((a+b+d)%2,(a+b+d)//2),st)
for n in range(0,6):
    for k in range(0,n+1):
        for st in (1,2.5):
            for vt in ('BINARY','SPIN'):
                labs=list('abcdef')[:n]; b=gen.combinations(labs,k,strength=st,vartype=vt)
                for vals in itertools.product([0,1],repeat=n):
                    s={l:(v if vt=='BINARY' else 2*v-1) for l,v in zip(labs,vals)}
                    e=float(b.energy(s)) if n else float(b.offset)
                    if abs(e-st*(sum(vals)-k)**2)>1e-9: note('combinations',(n,k,st,vt,vals,e))
# multiplication circuit 2x2,2x3
for n1,n2 in ((2,2),(2,3),(3,2)):
    b=gen.multiplication_circuit(n1,n2)
    av=[f'a{i}' for i in range(n1)]; bv=[f'b{i}' for i in range(n2)]; pv=[f'p{i}' for i in range(n1+n2)]
    rest=[v for v in b.variables if v not in av+bv+pv]
    if len(rest)>14: continue
    for a in range(2**n1):
        for bb in range(2**n2):
            fixed={**{f'a{i}':(a>>i)&1 for i in range(n1)},**{f'b{i}':(bb>>i)&1 for i in range(n2)}}
            sub=b.copy(); sub.fix_variables(fixed)
            ss=ExactSolver().sample(sub); low=ss.lowest()
            prods={sum(int(s[f'p{i}'])<<i for i in range(n1+n2) if f'p{i}' in s) for s in low.samples()}
            if abs(low.first.energy)>1e-9 or prods!={a*bb}: note('mult',(n1,n2,a,bb,prods,low.first.energy))
# MWIS
for seed in range(200):
    r=random.Random(seed); n=r.randint(1,5); nodes=list(range(n)); edges=[(u,v) for u in nodes for v in nodes if u<v and r.random()<.5]
    w={v:r.randint(1,4) for v in nodes}; st=r.choice([None,3.0,10])
    b=gen.maximum_weight_independent_set(edges,[(v,w[v]) for v in nodes],strength=st)
    S=st if st is not None else 2*max(w.values())
    for vals in itertools.product([0,1],repeat=n):
        s=dict(zip(nodes,vals)); 
        if set(b.variables)!=set(nodes): note('mwis-vars',(seed,)); break
        exp=S*sum(s[u]*s[v] for u,v in edges)-sum(w[v]*s[v] for v in nodes)
        if abs(float(b.energy(s))-exp)>1e-9: note('mwis',(seed,edges,w,st,s,float(b.energy(s)),exp)); break
# knapsack / binpacking
for seed in range(100):
    r=random.Random(seed); n=r.randint(1,4); vals=[r.randint(1,9) for _ in range(n)]; ws=[r.randint(1,9) for _ in range(n)]; cap=r.randint(1,15)
    c=gen.knapsack(vals,ws,cap)
    for x in itertools.product([0,1],repeat=n):
        s={f'x_{i}':x[i] for i in range(n)}
        if c.check_feasible(s)!=(sum(w*xi for w,xi in zip(ws,x))<=cap): note('knapsack-feas',(seed,))
        if abs(EV(c.objective,s)+sum(v*xi for v,xi in zip(vals,x)))>1e-9: note('knapsack-obj',(seed,))
    if n<=3:
        bp=gen.bin_packing(ws,cap); vs=list(bp.variables)
        for x in itertools.product([0,1],repeat=len(vs)):
            s=dict(zip(vs,x))
            ok=all(sum(s[f'x_{i}_{j}'] for j in range(n))==1 for i in range(n)) and all(sum(ws[i]*s[f'x_{i}_{j}'] for i in range(n))<=cap*s[f'y_{j}'] for j in range(n))
            if bp.check_feasible(s)!=ok: note('binpack-feas',(seed,s)); break
            if abs(EV(bp.objective,s)-sum(s[f'y_{j}'] for j in range(n)))>1e-9: note('binpack-obj',(seed,)); break
print('--- C17')
for k,v in issues.items(): print(k,str(v)[:400])
