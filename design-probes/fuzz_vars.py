import random, sys, warnings, traceback, copy, pickle
import numpy as np
from dimod.variables import Variables
ALPHA=[0,1,2,3,4,7,'a','b',('a',1),('t',(1,2))]
ALIAS={0:[0,0.0,np.int64(0),False],1:[1,1.0,np.int32(1),True],2:[2,2.0,np.int8(2)]}
issues={}
def note(k,d):
    if k not in issues: issues[k]=d
def check(v,L,seed,log):
    if list(v)!=L: note('list',(seed,log,list(v),L)); return False
    if len(v)!=len(L): note('len',(seed,log)); return False
    for x in ALPHA+['zz',9]:
        if (x in v)!=(x in L): note('contains',(seed,log,x)); return False
        if v.count(x)!=L.count(x): note('count',(seed,log,x)); return False
        if x in L and v.index(x)!=L.index(x): note('index',(seed,log,x)); return False
        for al in ALIAS.get(x,[]) if not isinstance(x,(str,tuple)) else []:
            if (al in v)!=(x in L): note('alias',(seed,log,al)); return False
    for i in range(-len(L),len(L)):
        if v[i]!=L[i]: note('getitem',(seed,log,i)); return False
    if not (v==L): note('eq',(seed,log)); return False
    st=v.__reduce__()[2] if False else None
    return True
for seed in range(int(sys.argv[1]),int(sys.argv[2])):
    r=random.Random(seed)
    L=[]; v=Variables(); log=[]
    for step in range(r.randint(1,25)):
        op=r.choice(['append','append_none','extend','pop','relabel','relabel_ints','remove','clear','copy','pickle','slice','init'])
        try:
            if op=='append':
                x=r.choice(ALPHA); perm=r.random()<.5; log.append((op,x,perm))
                if x in L:
                    if perm: v._append(x,permissive=True)
                    else:
                        try: v._append(x); note('append-dup-noraise',(seed,log)); break
                        except ValueError: pass
                else:
                    al=r.choice(ALIAS.get(x,[x])) if not isinstance(x,(str,tuple)) else x
                    v._append(al,permissive=perm); L.append(x)
            elif op=='append_none':
                log.append((op,))
                got=v._append()
                exp=len(L) if len(L) not in L else min(i for i in range(len(L)+2) if i not in L)
                if got!=exp: note('autolabel',(seed,log,got,exp)); break
                L.append(exp)
            elif op=='extend':
                xs=[r.choice(ALPHA) for _ in range(r.randint(0,3))]; log.append((op,xs))
                v._extend(xs,permissive=True)
                for x in xs:
                    if x not in L: L.append(x)
            elif op=='pop':
                log.append((op,))
                if L:
                    if v._pop()!=L.pop(): note('pop',(seed,log)); break
                else:
                    try: v._pop(); note('pop-empty',(seed,log)); break
                    except IndexError: pass
            elif op=='relabel':
                if not L: continue
                ks=r.sample(L,r.randint(1,len(L))); tg=[r.choice(ALPHA+['zz',9]) for _ in ks]
                m=dict(zip(ks,tg)); log.append((op,m))
                newL=[m.get(x,x) for x in L]
                ok=len(set(map(repr,newL)))==len(newL) and len(set(map(repr,m.values())))==len(m)
                before=list(v)
                try:
                    v._relabel(m)
                    if not ok: note('relabel-merge-accepted',(seed,log)); break
                    L=newL
                except ValueError:
                    if ok: note('relabel-valid-rejected',(seed,log,L)); break
                    if list(v)!=before: note('relabel-reject-changed',(seed,log)); break
            elif op=='relabel_ints':
                log.append((op,))
                m=v._relabel_as_integers()
                exp={i:x for i,x in enumerate(L) if i!=x}
                if m!=exp: note('relabel_ints-map',(seed,log,m,exp)); break
                L=list(range(len(L)))
            elif op=='remove':
                if not L: continue
                x=r.choice(L); log.append((op,x)); v._remove(x); L.remove(x)
            elif op=='clear':
                log.append((op,)); v._clear(); L=[]
            elif op=='copy':
                log.append((op,)); w=v.copy(); w._append('COPY'); 
                if 'COPY' in v: note('copy-alias',(seed,log)); break
                v=copy.deepcopy(v)
            elif op=='pickle':
                log.append((op,)); v=pickle.loads(pickle.dumps(v))
            elif op=='init':
                log.append((op,)); v=Variables(L)
            elif op=='slice':
                n=len(L); a,b=r.randint(0,n),r.randint(0,n); log.append((op,a,b))
                if list(v[a:b])!=L[a:b]: note('slice-pos',(seed,log)); break
        except Exception as e:
            note('EXC-'+op+'-'+type(e).__name__,(seed,log,traceback.format_exc().splitlines()[-2:])); break
        if not check(v,L,seed,log): break
for k,x in issues.items(): print(k,str(x)[:700])
print('kinds',len(issues))
