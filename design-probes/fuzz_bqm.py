import random, sys, warnings, traceback
warnings.simplefilter('ignore')
import numpy as np, dimod
from fractions import Fraction as F
LABELS = [0,1,2,5,'a','b',('a',1)]
def q(r): return r.randint(-16,16)/8
class Ref:
    def __init__(s, vt): s.vt=vt; s.lin={}; s.quad={}; s.off=0.0
    def key(s,u,v): return frozenset((u,v))
    def addv(s,v):
        if v not in s.lin: s.lin[v]=0.0
def state(b):
    lin = {repr(v): float(b.get_linear(v)) for v in b.variables}
    quad = {}
    for u,v,bias in b.iter_quadratic():
        k = tuple(sorted((repr(u),repr(v))))
        assert k not in quad, 'dup quad'
        quad[k]=float(bias)
    # consistency of readers
    assert b.num_variables == len(lin)
    assert b.num_interactions == len(quad), (b.num_interactions, quad)
    for v in b.variables:
        nb = dict(b.iter_neighborhood(v))
        assert b.degree(v) == len(nb)
        for u,bias in nb.items():
            assert quad[tuple(sorted((repr(u),repr(v))))]==float(bias)
    assert dict((repr(k),float(x)) for k,x in b.linear.items())==lin
    return lin, quad, float(b.offset), b.vartype.name, [repr(v) for v in b.variables]
def run(seed):
    r = random.Random(seed)
    vt = r.choice(['SPIN','BINARY'])
    objs = [dimod.BQM(vt, dtype=np.float64), dimod.BQM(vt, dtype=np.float32), dimod.BQM(vt, dtype=object)]
    log=[]
    for step in range(r.randint(1,30)):
        op = r.choice(['add_linear','set_linear','add_quadratic','set_quadratic','remove_variable','remove_interaction','add_variable','scale','offset','change_vartype','relabel','resize','contract','flip','fix','update','view_add_linear','view_add_quadratic','view_set_quadratic','view_set_linear','view_offset','view_remove_variable','view_remove_interaction','add_linear_from_array','add_quadratic_from_dense','relabel_ints'])
        u,v = r.choice(LABELS), r.choice(LABELS); b=q(r)
        k = r.randint(0,4); 
        perm = None
        if op=='relabel':
            cur = list(objs[0].variables)
            if not cur: continue
            ks = r.sample(cur, r.randint(1,len(cur)))
            tg = [r.choice(LABELS+['z',7]) for _ in ks]
            perm = dict(zip(ks,tg))
        other = None
        if op=='update':
            ovt = r.choice(['SPIN','BINARY'])
            other = dimod.BQM({r.choice(LABELS): q(r) for _ in range(r.randint(0,3))}, {}, q(r), ovt)
            for _ in range(r.randint(0,2)):
                a,c = r.sample(LABELS,2); other.add_quadratic(a,c,q(r))
        arr = [q(r) for _ in range(r.randint(0,4))]
        n = r.randint(0,3); dense = np.array([[q(r) if i!=j and r.random()<.5 else 0 for j in range(n)] for i in range(n)]).reshape(n,n)
        view = r.choice(['spin','binary'])
        log.append((op,u,v,b,k,perm,view))
        outs=[]
        for o in objs:
            before = state(o)
            try:
                tgt = getattr(o, view) if op.startswith('view_') else o
                if op in('add_linear','view_add_linear'): tgt.add_linear(u,b)
                elif op in ('set_linear','view_set_linear'): tgt.set_linear(u,b)
                elif op in ('add_quadratic','view_add_quadratic'): tgt.add_quadratic(u,v,b)
                elif op in ('set_quadratic','view_set_quadratic'): tgt.set_quadratic(u,v,b)
                elif op in ('remove_variable','view_remove_variable'): tgt.remove_variable(u)
                elif op in ('remove_interaction','view_remove_interaction'): tgt.remove_interaction(u,v)
                elif op=='add_variable': tgt.add_variable(u if k else None, b)
                elif op=='scale': tgt.scale(b)
                elif op=='offset': tgt.offset = b
                elif op=='view_offset': tgt.offset = b
                elif op=='change_vartype': tgt.change_vartype(r.choice(['SPIN','BINARY']) if False else ('SPIN' if k%2 else 'BINARY'))
                elif op=='relabel': tgt.relabel_variables(perm)
                elif op=='relabel_ints': tgt.relabel_variables_as_integers()
                elif op=='resize': tgt.resize(k)
                elif op=='contract': tgt.contract_variables(u,v)
                elif op=='flip': tgt.flip_variable(u)
                elif op=='fix': tgt.fix_variable(u, k-1)
                elif op=='update': tgt.update(other)
                elif op=='add_linear_from_array': tgt.add_linear_from_array(arr)
                elif op=='add_quadratic_from_dense': tgt.add_quadratic_from_dense(dense)
                outs.append(('ok', state(o)))
            except Exception as e:
                after = state(o)
                outs.append(('err', type(e).__name__, after, after==before))
        # compare backends
        def norm(x):
            if x[0]=='ok':
                lin,quad,off,vtn,order = x[1]; return ('ok', lin, quad, off, vtn)
            return ('err',)
        n0 = norm(outs[0])
        for i,o in enumerate(outs[1:],1):
            if norm(o)!=n0:
                return ('BACKEND-DIFF', seed, log, i, outs[0], o)
        if outs[0][0]=='ok' and outs[0][1][4]!=outs[1][1][4]:
            return ('ORDER-DIFF', seed, log, outs[0][1][4], outs[1][1][4])
        for o in outs:
            if o[0]=='err' and not o[3]:
                return ('CHANGED-ON-RAISE', seed, log, o[1])
    return None
bad = {}
for seed in range(int(sys.argv[1]), int(sys.argv[2])):
    try:
        res = run(seed)
    except AssertionError as e:
        res = ('ASSERT', seed, traceback.format_exc().splitlines()[-3:])
    except Exception as e:
        res = ('CRASH', seed, traceback.format_exc().splitlines()[-4:])
    if res:
        key = (res[0], res[2][-1][0] if res[0] in ('BACKEND-DIFF','ORDER-DIFF','CHANGED-ON-RAISE') else str(res[2]))
        if key not in bad:
            bad[key]=res
for k,v in bad.items():
    print(k); print('   ', str(v)[:1200])
print('distinct failure kinds', len(bad))
