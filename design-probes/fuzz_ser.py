import random, sys, warnings, traceback, itertools, json, pickle, copy, io
warnings.simplefilter('ignore')
import numpy as np, dimod
from dimod import *
from dimod.serialization.json import DimodEncoder, DimodDecoder
from dimod.serialization import coo
from dimod.serialization.fileview import load as fvload
issues={}
def note(k,d):
    if k not in issues: issues[k]=d
LABS=[0,1,2,7,'a','b','x/y','sp ace','üñ',('t',1),('n',('m',2)),1.5,-3,'0']
def q(r): return r.randint(-8,8)/4
def rbqm(r,labs=None,dtype=None):
    vt=r.choice(['SPIN','BINARY']); b=BQM(vt,dtype=dtype or r.choice([np.float64,np.float32,object]))
    labs=labs if labs is not None else r.sample(LABS,r.randint(0,5))
    for l in labs: b.add_linear(l,q(r))
    for _ in range(r.randint(0,5)):
        if len(labs)>=2:
            u,v=r.sample(labs,2); b.add_quadratic(u,v,q(r))
    b.offset=q(r); return b
def same(a,b,order=True):
    if not a.is_equal(b): return False
    if order and list(a.variables)!=list(b.variables): return False
    return all(type(x)==type(y) or (isinstance(x,(int,np.integer)) and isinstance(y,(int,np.integer))) for x,y in zip(sorted(a.variables,key=repr),sorted(b.variables,key=repr)))
for seed in range(int(sys.argv[1]),int(sys.argv[2])):
    r=random.Random(seed)
    which=r.choice(['bqm_file','bqm_file_v1','bqm_ign','bqm_json','bqm_bytes','bqm_pickle','bqm_deepcopy','bqm_coo','qm_file','dqm_file','ss_json','ss_bytes','ss_pickle','ss_enc','vars_ser','fvload'])
    try:
        if which.startswith('bqm_file') or which=='bqm_ign' or which=='fvload':
            b=rbqm(r); ver=1 if which=='bqm_file_v1' else 2
            f=b.to_file(version=ver, ignore_labels=(which=='bqm_ign'), spool_size=r.choice([0,10**9]))
            data=f.read()
            new=BQM.from_file(data if r.random()<.5 else io.BytesIO(data)) if which!='fvload' else fvload(data)
            exp=b if which!='bqm_ign' else b.relabel_variables_as_integers(inplace=False)[0]
            exp2=BQM(exp,dtype=np.float64) if exp.dtype==object else exp
            if not same(exp2,new): note(which,(seed,str(exp2)[:200],str(new)[:200]))
            if new.dtype!=exp2.dtype: note(which+'-dtype',(seed,))
        elif which in('bqm_json','bqm_bytes'):
            b=rbqm(r)
            d=b.to_serializable(use_bytes=(which=='bqm_bytes'))
            if which=='bqm_json': d=json.loads(json.dumps(d))
            new=BQM.from_serializable(d)
            if not same(BQM(b,dtype=new.dtype) if b.dtype==object else b,new,order=False): note(which,(seed,str(b)[:200],str(new)[:200]))
        elif which=='bqm_pickle':
            b=rbqm(r); new=pickle.loads(pickle.dumps(b))
            if not same(b,new,order=False) or new.dtype!=b.dtype: note(which,(seed,str(b)[:150],str(new)[:150], b.dtype,new.dtype))
        elif which=='bqm_deepcopy':
            b=rbqm(r); new=copy.deepcopy(b)
            if not same(b,new) or new.dtype!=b.dtype: note(which,(seed,))
        elif which=='bqm_coo':
            b=rbqm(r,labs=r.sample(range(6),r.randint(0,5)))
            s=coo.dumps(b,vartype_header=True); new=coo.loads(s)
            for v in b.variables:
                if b.get_linear(v) and (v not in new.variables or abs(new.get_linear(v)-float(b.get_linear(v)))>1e-6): note(which+'-lin',(seed,))
            for u,v,x in b.iter_quadratic():
                if x and abs(new.get_quadratic(u,v)-float(x))>1e-6: note(which+'-quad',(seed,))
            if new.vartype is not b.vartype: note(which+'-vt',(seed,))
        elif which=='qm_file':
            qm=QM(dtype=r.choice([np.float64,np.float32])); labs=r.sample(LABS,r.randint(0,5))
            for l in labs:
                vt=r.choice(['BINARY','SPIN','INTEGER','REAL'])
                kw={} if vt in('BINARY','SPIN') else dict(lower_bound=r.choice([-2,0,0.5]),upper_bound=r.choice([3,10,2.5]))
                qm.add_variable(vt,l,**kw); qm.set_linear(l,q(r))
            for _ in range(r.randint(0,5)):
                if labs:
                    u,v=r.choice(labs),r.choice(labs)
                    try: qm.add_quadratic(u,v,q(r))
                    except ValueError: pass
            qm.offset=q(r)
            new=QM.from_file(qm.to_file().read())
            if not qm.is_equal(new) or list(qm.variables)!=list(new.variables) or new.dtype!=qm.dtype: note(which,(seed,str(qm)[:200],str(new)[:200]))
            for v in qm.variables:
                if (qm.vartype(v),qm.lower_bound(v),qm.upper_bound(v))!=(new.vartype(v),new.lower_bound(v),new.upper_bound(v)): note(which+'-varinfo',(seed,v))
        elif which=='dqm_file':
            d=DQM(); labs=r.sample(LABS,r.randint(0,4)); cases={}
            for l in labs: cases[l]=r.randint(1,3); d.add_variable(cases[l],l); d.set_linear(l,[q(r) for _ in range(cases[l])])
            for _ in range(r.randint(0,4)):
                if len(labs)>=2:
                    u,v=r.sample(labs,2); d.set_quadratic_case(u,r.randrange(cases[u]),v,r.randrange(cases[v]),q(r))
            d.offset=q(r)
            ign=r.random()<.3
            new=DQM.from_file(d.to_file(compress=r.random()<.5,ignore_labels=ign).read())
            va=d.to_numpy_vectors(return_offset=True); vb=new.to_numpy_vectors(return_offset=True)
            ok=all(np.array_equal(x,y) for x,y in zip(va[:2],vb[:2])) and all(np.array_equal(x,y) for x,y in zip(va[2],vb[2])) and va[3]==vb[3]
            okl=list(new.variables)==(list(range(len(labs))) if ign else list(d.variables))
            if not (ok and okl): note(which,(seed,list(d.variables),list(new.variables),ok))
        elif which.startswith('ss_'):
            vt=r.choice(['SPIN','BINARY','INTEGER','REAL','DISCRETE']); n=r.randint(0,4); m=r.randint(0,4); labs=r.sample(LABS,n)
            dom={'SPIN':[-1,1],'BINARY':[0,1],'INTEGER':[-3,0,2,300],'DISCRETE':[0,1,2,5],'REAL':[-1.5,0,2.25,7]}[vt]
            dt=r.choice([np.int8,np.int32,np.int64,np.float32,np.float64]) if vt!='REAL' else r.choice([np.float32,np.float64])
            if vt=='INTEGER' and dt==np.int8: dt=np.int16
            rows=np.array([[r.choice(dom) for _ in range(n)] for _ in range(m)],dtype=dt).reshape(m,n)
            kw=dict(extra=[q(r) for _ in range(m)], flags=[r.random()<.5 for _ in range(m)], vec=[[r.randint(0,3),r.randint(0,3)] for _ in range(m)]) if r.random()<.6 else {}
            ss=SampleSet.from_samples((rows,labs),vt,energy=[q(r) for _ in range(m)],num_occurrences=[r.randint(1,4) for _ in range(m)],info={'a':1,'arr':np.arange(3),'nested':{'b':[1.5,np.float64(2.5)]}},**kw)
            if which=='ss_json': new=SampleSet.from_serializable(json.loads(json.dumps(ss.to_serializable(pack_samples=r.random()<.7))))
            elif which=='ss_bytes': new=SampleSet.from_serializable(ss.to_serializable(use_bytes=True,pack_samples=r.random()<.7))
            elif which=='ss_pickle': new=pickle.loads(pickle.dumps(ss)) if r.random()<.5 else copy.deepcopy(ss)
            else: new=json.loads(json.dumps(ss,cls=DimodEncoder),cls=DimodDecoder)
            def tab(s): return sorted((repr(v), s.record.sample[:,i].astype(float).tolist()) for i,v in enumerate(s.variables))
            if tab(ss)!=tab(new): note(which+'-samples-'+vt,(seed,tab(ss),tab(new)))
            if new.vartype is not ss.vartype: note(which+'-vartype',(seed,))
            for f in ss.record.dtype.names:
                if f=='sample': continue
                if f not in new.record.dtype.names or not np.array_equal(ss.record[f],new.record[f]): note(which+'-field-'+f,(seed,))
            if json.dumps(dimod.serialization.utils.serialize_ndarrays(ss.info),sort_keys=True)!=json.dumps(dimod.serialization.utils.serialize_ndarrays(new.info),sort_keys=True): note(which+'-info',(seed,ss.info,new.info))
        elif which=='vars_ser':
            from dimod.variables import Variables, iter_deserialize_variables
            labs=r.sample(LABS,r.randint(0,6)); v=Variables(labs)
            back=list(iter_deserialize_variables(json.loads(json.dumps(v.to_serializable()))))
            if back!=labs or [type(a) for a in back]!=[type(a) for a in labs]: note(which,(seed,labs,back))
    except Exception as e:
        note('EXC-'+which+'-'+type(e).__name__,(seed,traceback.format_exc().splitlines()[-3:]))
for k,v in issues.items(): print(k,str(v)[:500])
print('kinds',len(issues))
