import dimod, numpy as np, json, copy, pickle, itertools, warnings
warnings.simplefilter('ignore')
from dimod import *
def T(name, f):
    try: print(name, '->', f())
    except Exception as e: print(name, 'EXC', type(e).__name__, e)
def f16():
    poly = BinaryPolynomial({(): 5.0, 'a': 1.0, 'ab': 2.0, 'abc': 3.0}, 'BINARY')
    ss = PolyFixedVariableComposite(ExactPolySolver()).sample_poly(poly, fixed_variables={'a': 1})
    bad = [(dict(s), e, poly.energy(s)) for s, e in ss.data(['sample','energy']) if abs(e-poly.energy(s))>1e-9]
    return bad[:2]
T('F16 polyfix const', f16)
def f17():
    poly = BinaryPolynomial({'zyx': -1.0, 'z': 0.5, 'y': 0.25}, 'BINARY')
    ss = HigherOrderComposite(ExactSolver()).sample_poly(poly, keep_penalty_variables=True, penalty_strength=5)
    bad = []
    for s, e in ss.data(['sample','energy']):
        if abs(poly.energy({v: s[v] for v in 'xyz'}) - e) > 1e-9: bad.append((dict(s), e))
    return list(ss.variables), bad[:2]
T('F17 keep_penalty', f17)
def lp1():
    i = Integer('i', lower_bound=-3, upper_bound=5); x = Binary('x'); r = Real('r', upper_bound=2.5)
    cqm = CQM(); cqm.set_objective(3*i*i - 2*i*x + 0.5*x + 1.25*r - 7)
    cqm.add_constraint(i*i + x + 3 <= 5, label='c1'); cqm.add_constraint(2*i - x >= -1, label='c2')
    s = dimod.lp.dumps(cqm); new = dimod.lp.loads(s)
    smp = {'i': 2, 'x': 1, 'r': 1.5}
    return (cqm.objective.energy(smp), new.objective.energy(smp), 
            {l: (c.lhs.energy(smp), c.rhs, c.sense.value) for l,c in cqm.constraints.items()},
            {l: (c.lhs.energy(smp), c.rhs, c.sense.value) for l,c in new.constraints.items()},
            {v:(new.vartype(v).name,new.lower_bound(v),new.upper_bound(v)) for v in new.variables})
T('LP roundtrip', lp1)
def slack10():
    dqm = DQM(); dqm.add_variable(31,'a')
    terms = [('a', c, c) for c in range(31)]
    slack = dqm.add_linear_inequality_constraint(terms, 1.0, 'c', lb=5, ub=20, slack_method='log10')
    out = {}
    svars = [v for v in dqm.variables if v != 'a']
    cases = [range(dqm.num_cases(v)) for v in svars]
    for a in range(31):
        out[a] = min(dqm.energy({'a': a, **dict(zip(svars, c))}) for c in itertools.product(*cases))
    return {a: e for a, e in out.items() if (e == 0) != (5 <= a <= 20)}
T('slack log10', slack10)
def slack2():
    for method in ['log2','linear']:
        dqm = DQM(); dqm.add_variable(31,'a')
        terms = [('a', c, c) for c in range(31)]
        dqm.add_linear_inequality_constraint(terms, 1.0, 'c', lb=5, ub=20, slack_method=method)
        svars = [v for v in dqm.variables if v != 'a']
        cases = [range(dqm.num_cases(v)) for v in svars]
        out = {}
        for a in range(31):
            out[a] = min(dqm.energy({'a': a, **dict(zip(svars, c))}) for c in itertools.product(*cases))
        print(method, {a: e for a, e in out.items() if (e == 0) != (5 <= a <= 20) or (e!=0 and e<1)})
T('slack log2/linear', slack2)
def ineq_spin():
    bqm = BQM('SPIN'); bqm.add_variable('a'); bqm.add_variable('b')
    sl = bqm.add_linear_inequality_constraint([('a',1),('b',1)], 1.0, 'c', ub=0)
    return sl, {(a,b): min(bqm.energy({'a':a,'b':b, **dict(zip([s for s,_ in sl], c))}) for c in itertools.product([-1,1], repeat=len(sl))) for a in (-1,1) for b in (-1,1)}
T('ineq spin', ineq_spin)
def upd():
    a = BQM({'a':1,'b':2},{('a','b'):3}, 0.5, 'SPIN'); b = BQM({'c':1,'d':2},{('d','c'):3, ('a','d'): 1}, 0.5, 'SPIN')
    a.update(b); return a
T('update', upd)
def pk():
    a = BQM({'a':1,'b':2},{('a','b'):3}, 0.5, 'SPIN'); a.add_linear('a', 1); a.get_linear('a')
    b = pickle.loads(pickle.dumps(a)); b.add_linear('a', 5); c = copy.deepcopy(a); c.add_linear('a', 7)
    return a.linear, b.linear, c.linear
T('pickle w/ fwd cache', pk)
def pkd():
    a = DictBQM({'a':1,'b':2},{('a','b'):3}, 0.5, 'SPIN'); a.add_linear('a', 1)
    b = pickle.loads(pickle.dumps(a)); b.add_linear('a', 5); c = copy.deepcopy(a); c.add_linear('a', 7); d = a.copy(); d.add_linear('a', 11); d.add_quadratic('a','b',1)
    return a.linear, b.linear, c.linear, d.linear, a.quadratic
T('pickle dict', pkd)
def views():
    a = BQM({'a':1,'b':2},{('a','b'):3}, 0.5, 'SPIN'); v = a.binary
    a.change_vartype('BINARY'); v.add_linear('a', 1); w = a.spin; w.add_quadratic('a','c', 2)
    return a, v.linear, w.linear, a.spin.binary is a
T('views', views)
def agg():
    ss = SampleSet.from_samples(np.zeros((3,0)), 'BINARY', energy=[0,0,0]); return ss.aggregate().record
T('aggregate 0 vars', agg)
