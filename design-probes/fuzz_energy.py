import random, sys, warnings, traceback, itertools, copy
warnings.simplefilter('ignore')
import numpy as np, dimod
from dimod import *
from concurrent.futures import Future
issues={}
def note(k,d):
    if k not in issues: issues[k]=d
def q(r): return r.randint(-8,8)/4
LAB=[0,1,2,'a','b',('t',1),5,'zz']
def EVr(m,s):
    e=float(m.offset)
    for v,b in m.iter_linear(): e+=float(b)*s[v]
    for u,v,b in m.iter_quadratic(): e+=float(b)*s[u]*s[v]
    return e
def encodings(r, rows, labels):
    # rows: list of dict label->value ; returns list of (name, samples_like)
    outs=[]
    perm=r.sample(labels,len(labels))
    arr=np.array([[row[l] for l in perm] for row in rows]).reshape(len(rows),len(perm))
    outs.append(('arr+labels',(arr,perm)))
    outs.append(('list+labels',(arr.tolist(),perm)))
    outs.append(('arrF+labels',(np.asfortranarray(arr),perm)))
    outs.append(('float+labels',(arr.astype(float),perm)))
    outs.append(('dicts',[ {l:row[l] for l in r.sample(labels,len(labels))} for row in rows]))
    outs.append(('dicts-iter',iter([ {l:row[l] for l in r.sample(labels,len(labels))} for row in rows])))
    if len(rows)==1:
        outs.append(('dict',{l:rows[0][l] for l in r.sample(labels,len(labels))}))
        outs.append(('1d+labels',(arr[0],perm)))
    try:
        vt='BINARY' if set(arr.flatten().tolist())<= {0,1} else 'SPIN' if set(arr.flatten().tolist())<={-1,1} else 'INTEGER'
        ss=SampleSet.from_samples((arr,perm),vt,energy=[0]*len(rows),sort_labels=r.random()<.5)
        outs.append(('sampleset',ss))
    except Exception as e: pass
    if labels==list(range(len(labels))):
        a2=np.array([[row[l] for l in labels] for row in rows]).reshape(len(rows),len(labels))
        outs.append(('arr',a2)); outs.append(('list',a2.tolist()))
    return outs
for seed in range(int(sys.argv[1]),int(sys.argv[2])):
    r=random.Random(seed)
    kind=r.choice(['bqm64','bqm32','bqmobj','view','qm','cqmobj','cqmcon','poly','dqm','utils','lazy'])
    try:
        if kind in('bqm64','bqm32','bqmobj','view','qm','cqmobj','cqmcon'):
            labs=r.sample(LAB[:7], r.randint(0,5)) if r.random()<.8 else list(range(r.randint(0,4)))
            if kind=='qm' or kind.startswith('cqm'):
                m=QM()
                for l in labs: m.add_variable(r.choice(['BINARY','SPIN','INTEGER']),l,lower_bound=-3,upper_bound=5); m.set_linear(l,q(r))
                for _ in range(r.randint(0,5)):
                    if labs:
                        u,v=r.choice(labs),r.choice(labs)
                        try: m.add_quadratic(u,v,q(r))
                        except ValueError: pass
                m.offset=q(r)
                dom=lambda l: {'BINARY':[0,1],'SPIN':[-1,1],'INTEGER':[-3,0,2,5]}[m.vartype(l).name]
                if kind.startswith('cqm'):
                    c=CQM()
                    extra=[l for l in LAB[:7] if l not in labs][:2]
                    for e in extra: c.add_variable('BINARY',e)
                    if kind=='cqmobj': c.set_objective(m); target=c.objective
                    else:
                        c.add_constraint_from_model(m,'<=',1,label='k'); target=c.constraints['k'].lhs
                    alllabs=list(c.variables); ref=m
                    domc=lambda l: dom(l) if l in labs else [0,1]
                    model=target; labs_s=alllabs; dm=domc
                else:
                    model=m; ref=m; labs_s=labs; dm=dom
            else:
                vt=r.choice(['SPIN','BINARY']); m=BQM(vt,dtype={'bqm64':np.float64,'bqm32':np.float32,'bqmobj':object,'view':np.float64}[kind])
                for l in labs: m.add_linear(l,q(r))
                for _ in range(r.randint(0,5)):
                    if len(labs)>=2:
                        u,v=r.sample(labs,2); m.add_quadratic(u,v,q(r))
                m.offset=q(r)
                model=m if kind!='view' else (m.spin if vt=='BINARY' else m.binary)
                ref=model; labs_s=labs
                dm=lambda l: [-1,1] if model.vartype is dimod.SPIN else [0,1]
            nrows=r.randint(1,3)
            rows=[{l:r.choice(dm(l)) for l in labs_s} for _ in range(nrows)]
            if kind=='view':
                refm=m.change_vartype(model.vartype,inplace=False)
                exp=[EVr(refm,row) for row in rows]
            else:
                exp=[EVr(ref,row) for row in rows]
            for name,enc in encodings(r,rows,labs_s):
                try:
                    got=model.energies(enc)
                except Exception as e:
                    note(f'{kind}-{name}-EXC-{type(e).__name__}',(seed,str(e)[:80],labs_s)); continue
                if len(got)!=len(exp) or any(abs(float(a)-b)>1e-6 for a,b in zip(got,exp)): note(f'{kind}-{name}-value',(seed,labs_s,rows,list(map(float,got)),exp))
            # extra labels allowed? missing label must raise
            if labs_s:
                miss=dict(rows[0]); miss.pop(labs_s[0])
                used=set(v for v,_ in ref.iter_linear())
                try:
                    model.energies(miss)
                    if labs_s[0] in used: note(f'{kind}-missing-accepted',(seed,))
                except Exception: pass
        elif kind=='poly':
            vt=r.choice(['SPIN','BINARY']); labs=r.sample(LAB[:7],r.randint(1,4)); terms={}
            for _ in range(r.randint(1,5)):
                t=tuple(r.sample(labs,r.randint(0,len(labs)))); terms[t]=terms.get(t,0)+q(r)
            p=BinaryPolynomial(terms,vt); used=sorted(p.variables,key=repr)
            rows=[{l:r.choice([-1,1] if vt=='SPIN' else [0,1]) for l in labs} for _ in range(r.randint(1,3))]
            exp=[]
            for row in rows:
                e=0
                for t,b in p.items():
                    x=b
                    for v in t: x*=row[v]
                    e+=x
                exp.append(e)
            for name,enc in encodings(r,rows,labs):
                try: got=p.energies(enc)
                except Exception as e: note(f'poly-{name}-EXC-{type(e).__name__}',(seed,str(e)[:80])); continue
                if any(abs(a-b)>1e-9 for a,b in zip(got,exp)): note(f'poly-{name}-value',(seed,))
        elif kind=='dqm':
            d=DQM(); labs=r.sample(LAB[:7],r.randint(1,3)); cases={}
            for l in labs: cases[l]=r.randint(1,3); d.add_variable(cases[l],l); d.set_linear(l,[q(r) for _ in range(cases[l])])
            for _ in range(r.randint(0,3)):
                if len(labs)>=2:
                    u,v=r.sample(labs,2); d.set_quadratic_case(u,r.randrange(cases[u]),v,r.randrange(cases[v]),q(r))
            d.offset=q(r)
            rows=[{l:r.randrange(cases[l]) for l in labs} for _ in range(r.randint(1,3))]
            exp=[]
            for row in rows:
                e=float(d.offset)+sum(d.get_linear_case(l,row[l]) for l in labs)
                for a,b in itertools.combinations(labs,2):
                    try: e+=d.get_quadratic_case(a,row[a],b,row[b])
                    except Exception: pass
                exp.append(e)
            for name,enc in encodings(r,rows,labs):
                if name.startswith('float') : continue
                try: got=d.energies(enc)
                except Exception as e: note(f'dqm-{name}-EXC-{type(e).__name__}',(seed,str(e)[:80])); continue
                if any(abs(a-b)>1e-9 for a,b in zip(got,exp)): note(f'dqm-{name}-value',(seed,rows,list(got),exp))
            for badrow in ({**rows[0], labs[0]:cases[labs[0]]}, {**rows[0], labs[0]:-1}):
                try:
                    d.energies(badrow); note('dqm-outofrange-accepted-'+('neg' if badrow[labs[0]]<0 else 'big'),(seed,))
                except ValueError: pass
        elif kind=='utils':
            labs=r.sample(LAB[:7],r.randint(1,4)); h={l:q(r) for l in labs}; J={}
            for _ in range(r.randint(0,4)):
                if len(labs)>=2:
                    u,v=r.sample(labs,2)
                    if (u,v) not in J and (v,u) not in J: J[(u,v)]=q(r)
            off=q(r); Q,qoff=dimod.ising_to_qubo(h,J,off)
            h2,J2,off2=dimod.qubo_to_ising(Q,qoff)
            for s in itertools.product([-1,1],repeat=len(labs)):
                sp=dict(zip(labs,s)); bn={l:(x+1)//2 for l,x in sp.items()}
                e1=dimod.ising_energy(sp,h,J,off); e2=dimod.qubo_energy(bn,Q,qoff); e3=dimod.ising_energy(sp,h2,J2,off2)
                if abs(e1-e2)>1e-9 or abs(e1-e3)>1e-9: note('utils-ising-qubo',(seed,h,J,off,Q,qoff,e1,e2,e3)); break
        elif kind=='lazy':
            vt=r.choice(['SPIN','BINARY']); n=r.randint(1,3); labs=r.sample(LAB[:7],n)
            base=SampleSet.from_samples(([[r.choice([0,1]) if vt=='BINARY' else r.choice([-1,1]) for _ in range(n)] for _ in range(3)],labs),vt,energy=[q(r) for _ in range(3)])
            ops=[]
            for _ in range(r.randint(1,3)):
                if r.random()<.5:
                    ops.append(('relabel',{l:('R',i,r.randint(0,99)) for i,l in enumerate(labs) if r.random()<.7}, r.random()<.5)); 
                else: ops.append(('change',r.choice(['SPIN','BINARY']),r.choice([0,1.5]),True))
            def apply(ss):
                cur=ss; labs2=list(labs)
                for op in ops:
                    if op[0]=='relabel':
                        m={k:v for k,v in op[1].items() if k in cur.variables} if False else op[1]
                        m={k:v for k,v in m.items()}
                        cur=cur.relabel_variables({k:v for k,v in m.items() if True}, inplace=op[2])
                    else: cur=cur.change_vartype(op[1],energy_offset=op[2],inplace=op[3])
                return cur
            # relabel maps refer to original labels; only first relabel is valid -> keep it simple: at most one relabel
            ops=[o for i,o in enumerate(ops) if o[0]!='relabel' or all(p[0]!='relabel' for p in ops[:i])]
            eager=apply(copy.deepcopy(base))
            fut=Future(); lazy=apply(SampleSet.from_future(fut)); 
            if lazy.done(): note('lazy-resolved-early',(seed,ops))
            fut.set_result(copy.deepcopy(base))
            if not (lazy==eager): note('lazy-differs',(seed,ops,str(lazy),str(eager)))
    except Exception as e:
        note('EXC-'+kind+'-'+type(e).__name__,(seed,traceback.format_exc().splitlines()[-3:]))
for k,v in sorted(issues.items()): print(k,str(v)[:400])
print('kinds',len(issues))
