import subprocess, sys, re
src=open('/var/tmp/probe/crash_child.py').read()
kinds=sorted(set(re.findall(r"C\('([^']+)'",src)))
# child variant: only run calls whose name == argv[3]
child=src.replace("for k in order:\n    if k in skip: continue\n    name,f=calls[k]","for k in order:\n    if k in skip: continue\n    name,f=calls[k]\n    if name!=sys.argv[3]: continue")
open('/var/tmp/probe/crash_child_kind.py','w').write(child)
res={}
for kind in kinds:
    for seed in (0,1,2):
        try:
            p=subprocess.run(['/venv/bin/python','/var/tmp/probe/crash_child_kind.py',str(seed),'',kind],capture_output=True,text=True,timeout=60)
            rc=p.returncode; tail=p.stderr.strip().splitlines()[-1:] 
        except subprocess.TimeoutExpired: rc='TIMEOUT'; tail=[]
        if rc!=0: res.setdefault(kind,[]).append((seed,rc,tail))
for k,v in res.items(): print(k,v)
print('crashing kinds',len(res),'of',len(kinds))
