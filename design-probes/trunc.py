import warnings, sys, io, random
warnings.simplefilter('ignore')
import numpy as np, dimod
from dimod import BQM, QM, CQM, DQM, Binary, Integer, Spin
r=random.Random(1)
def models():
    b=BQM({'a':1.5,'b':-2,('c',1):0.25},{('a','b'):1,('b',('c',1)):-3},0.5,'SPIN'); yield 'bqm', b, BQM.from_file, lambda m: m.to_file()
    yield 'bqm_v1', b, BQM.from_file, lambda m: m.to_file(version=1)
    b2=BQM({0:1,1:2,2:3},{(0,1):1,(1,2):2},0,'BINARY', dtype=np.float32); yield 'bqm32', b2, BQM.from_file, lambda m: m.to_file()
    i=Integer('i',upper_bound=5); x=Binary('x'); s=Spin('s')
    q=3*i*i+2*i*x-s+x*s+1.5; yield 'qm', q, QM.from_file, lambda m: m.to_file()
    q0=QM(); q0.offset=2; yield 'qm0', q0, QM.from_file, lambda m: m.to_file()
    q1=QM(); q1.add_variables_from('BINARY', range(3)); q1.add_quadratic(0,2,1.0); yield 'qmrange', q1, QM.from_file, lambda m: m.to_file()
    c=CQM(); c.set_objective(q); c.add_constraint(i+x<=3,label='c1'); c.add_constraint(x*s+i>=1,label=('t',1), weight=2.0); c.add_discrete(['d1','d2','d3'] if False else (Binary('d1')+Binary('d2')+Binary('d3')==1), label='disc')
    yield 'cqm', c, CQM.from_file, lambda m: m.to_file()
    yield 'cqmz', c, CQM.from_file, lambda m: m.to_file(compress=True)
    d=DQM(); d.add_variable(3,'a'); d.add_variable(2,'b'); d.set_linear('a',[1,2,3]); d.set_quadratic('a','b',{(0,1):1.5,(2,0):-1}); d.offset=0.5
    yield 'dqm', d, DQM.from_file, lambda m: m.to_file()
def eq(kind,a,b):
    if kind.startswith('dqm'):
        va=a.to_numpy_vectors(return_offset=True); vb=b.to_numpy_vectors(return_offset=True)
        return list(a.variables)==list(b.variables) and all(np.array_equal(x,y) for x,y in zip(va[:2],vb[:2])) and all(np.array_equal(x,y) for x,y in zip(va[2],vb[2])) and va[3]==vb[3]
    return a.is_equal(b) and list(a.variables)==list(b.variables)
for kind,m,load,dump in models():
    data=dump(m).read(); n=len(data)
    full=load(data); assert eq(kind,m,full),(kind,'full roundtrip')
    stats={}
    for k in range(n):
        try:
            got=load(data[:k])
            if eq(kind,m,got): stats.setdefault('equal',[]).append(k)
            else: stats.setdefault('DIFFERENT',[]).append(k)
        except Exception as e:
            stats.setdefault(type(e).__name__,[]).append(k)
    print(kind,n,{k:(len(v),v[0],v[-1]) for k,v in stats.items()})
