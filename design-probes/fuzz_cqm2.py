import random, sys, warnings, traceback, itertools
warnings.simplefilter('ignore')
import numpy as np, dimod
from dimod import *
issues={}
def note(k,d):
    if k not in issues: issues[k]=d
def q(r): return r.randint(-8,8)/4
KIND={'x':'B','y':'B','s':'S','i':'I','j':'I','u':'B','v':'B','w':'B'}
def var(l): return {'B':Binary,'S':Spin}.get(KIND[l], lambda l: Integer(l,lower_bound=-1,upper_bound=2))(l)
def EV(expr, s):
    e=float(expr.offset)
    for v,b in expr.iter_linear(): e+=float(b)*s[v]
    for a,c,b in expr.iter_quadratic(): e+=float(b)*s[a]*s[c]
    return e
def rexpr(r,labs,lin_only=False,intcoef=False):
    c=(lambda: r.randint(-3,3)) if intcoef else (lambda: q(r))
    e=0*var(labs[0])+ (c() if r.random()<.6 else 0)
    for _ in range(r.randint(0,3)): e=e+c()*var(r.choice(labs))
    if not lin_only:
        for _ in range(r.randint(0,2)):
            a,b=r.choice(labs),r.choice(labs)
            if a==b and KIND[a]!='I': continue
            e=e+c()*var(a)*var(b)
    return e
for seed in range(int(sys.argv[1]),int(sys.argv[2])):
    r=random.Random(seed)
    labs=r.sample(['x','y','s','i','j'],r.randint(1,4))
    which=r.choice(['viol','from_samples','exact','exact_disc','cqm2bqm','dqm_exact'])
    try:
        if which in('viol','from_samples','exact','exact_disc'):
            cqm=CQM(); cqm.set_objective(rexpr(r,labs))
            for ci in range(r.randint(0,3)):
                kw={}
                if r.random()<.4:
                    kw=dict(weight=r.choice([0.5,2]),penalty=r.choice(['linear','quadratic']))
                e=rexpr(r,[l for l in labs if KIND[l]!='I'] or labs) if kw.get('penalty')=='quadratic' else rexpr(r,labs)
                try: cqm.add_constraint_from_model(e, r.choice(['<=','>=','==']), q(r), label=f'c{ci}', **kw)
                except ValueError: pass
            if False: cqm.add_constraint_from_iterable([(q(r),)], r.choice(['<=','>=','==']), q(r), label='konst')
            if which=='exact_disc':
                cqm.add_discrete(Binary('u')+Binary('v')+Binary('w')==1,label='D')
            vs=list(cqm.variables)
            dom={'BINARY':[0,1],'SPIN':[-1,1],'INTEGER':[-1,0,1,2]}
            atol=r.choice([0,1e-8,0.25]); rtol=r.choice([0,1e-6,0.125])
            def spec(s):
                en=EV(cqm.objective,s); sat={}; feas=True; viol={}
                for lbl,c in cqm.constraints.items():
                    act=EV(c.lhs,s)-float(c.rhs)
                    v=abs(act) if c.sense.value=='==' else act if c.sense.value=='<=' else -act
                    viol[lbl]=v; ok=v<=atol+rtol*abs(float(c.rhs)); sat[lbl]=ok
                    if c.lhs.is_soft():
                        if not ok: en+=c.lhs.weight()*(v if c.lhs.penalty()=='linear' else v*v)
                    elif not ok: feas=False
                return en,sat,feas,viol
            if which=='viol':
                s={v:r.choice(dom[cqm.vartype(v).name]) for v in vs}
                en,sat,feas,viol=spec(s)
                got=cqm.violations(s)
                if any(abs(got[l]-viol[l])>1e-9 for l in viol): note('violations',(seed,got,viol))
                if cqm.check_feasible(s,rtol=rtol,atol=atol)!=all(sat.values()): note('check_feasible',(seed,))
                g2=dict(cqm.iter_violations(s,clip=True))
                if any(abs(g2[l]-max(viol[l],0))>1e-9 for l in viol): note('clip',(seed,))
                g3=dict(cqm.iter_violations(s,skip_satisfied=True))
                if set(g3)!={l for l in viol if viol[l]>0}: note('skip',(seed,g3,viol))
            else:
                if which=='from_samples':
                    rows=[{v:r.choice(dom[cqm.vartype(v).name]) for v in vs} for _ in range(4)]
                    ss=SampleSet.from_samples_cqm((np.array([[row[v] for v in vs] for row in rows]),vs),cqm,rtol=rtol,atol=atol)
                else:
                    ss=ExactCQMSolver().sample_cqm(cqm,rtol=rtol,atol=atol)
                    exp=1
                    for v in vs:
                        if v in 'uvw': continue
                        exp*=len({'BINARY':[0,1],'SPIN':[-1,1]}.get(cqm.vartype(v).name, range(int(cqm.lower_bound(v)),int(cqm.upper_bound(v))+1)))
                    if which=='exact_disc': exp*=3
                    if len(ss)!=exp: note(which+'-count',(seed,len(ss),exp))
                    if len({tuple(x) for x in ss.record.sample})!=len(ss): note(which+'-dup',(seed,))
                labels=ss.info['constraint_labels']
                for rec in ss.record:
                    s=dict(zip(ss.variables, rec.sample))
                    en,sat,feas,viol=spec(s)
                    if abs(en-rec.energy)>1e-9: note(which+'-energy',(seed,s,en,float(rec.energy))); break
                    if [bool(x) for x in rec.is_satisfied]!=[sat[l] for l in labels]: note(which+'-sat',(seed,)); break
                    if bool(rec.is_feasible)!=feas: note(which+'-feas',(seed,s,feas,sat)); break
        elif which=='cqm2bqm':
            labs2=r.sample(['x','y','s','i'],r.randint(1,3))
            cqm=CQM(); 
            def ivar(l): return {'B':Binary,'S':Spin}.get(KIND[l], lambda l: Integer(l,upper_bound=3))(l)
            obj=0*ivar(labs2[0])
            for _ in range(r.randint(0,3)): obj=obj+r.randint(-3,3)*ivar(r.choice(labs2))
            a,b=r.choice(labs2),r.choice(labs2)
            if a!=b or KIND[a]=='I': obj=obj+r.randint(-2,2)*ivar(a)*ivar(b)
            cqm.set_objective(obj)
            for ci in range(r.randint(1,2)):
                e=0*ivar(labs2[0])+r.randint(-2,2)
                for _ in range(r.randint(1,3)): e=e+r.randint(-3,3)*ivar(r.choice(labs2))
                cqm.add_constraint_from_model(e,r.choice(['<=','>=','==']),r.randint(-3,4),label=f'c{ci}')
            lam=r.choice([1,2.5])
            try: bqm,inv=cqm_to_bqm(cqm,lagrange_multiplier=lam)
            except ValueError as ex:
                note('cqm2bqm-refused-'+str(ex)[:40],(seed,)); continue
            if len(bqm.variables)>14: continue
            best={}
            for rec in ExactSolver().sample(bqm).data(['sample','energy']):
                s=inv(rec.sample); key=tuple(sorted(s.items()))
                best[key]=min(best.get(key,1e18),rec.energy)
            for key,e in best.items():
                s=dict(key); feas=cqm.check_feasible(s); o=EV(cqm.objective,s)
                # domain
                if any(KIND[v]=='I' and not (0<=x<=cqm.upper_bound(v)) for v,x in s.items()): note('cqm2bqm-domain',(seed,s))
                if feas and abs(e-o)>1e-9: note('cqm2bqm-feasible',(seed,s,e,o))
                if not feas and e<o+lam-1e-9: note('cqm2bqm-infeasible',(seed,s,e,o,lam))
            # all cqm assignments represented
            n=1
            for v in cqm.variables: n*= 2 if KIND[v]!='I' else int(cqm.upper_bound(v))+1
            if len(best)!=n: note('cqm2bqm-coverage',(seed,len(best),n))
        elif which=='dqm_exact':
            d=DQM(); nv=r.randint(1,3); cases=[r.randint(1,3) for _ in range(nv)]
            for k,c in enumerate(cases): d.add_variable(c,f'd{k}'); d.set_linear(f'd{k}',[q(r) for _ in range(c)])
            for a in range(nv):
                for b in range(a):
                    if r.random()<.6: d.set_quadratic(f'd{a}',f'd{b}',{(r.randrange(cases[a]),r.randrange(cases[b])):q(r)})
            d.offset=q(r)
            ss=ExactDQMSolver().sample_dqm(d)
            if len(ss)!=int(np.prod(cases)): note('dqm-count',(seed,))
            if len({tuple(x) for x in ss.record.sample})!=len(ss): note('dqm-dup',(seed,))
            for s,e in ss.data(['sample','energy']):
                exp=float(d.offset)+sum(d.get_linear_case(v,s[v]) for v in d.variables)
                for a in d.variables:
                    for b in d.variables:
                        if repr(a)<repr(b):
                            try: exp+=d.get_quadratic_case(a,s[a],b,s[b])
                            except Exception: pass
                if abs(exp-e)>1e-9: note('dqm-energy',(seed,dict(s),e,exp)); break
    except Exception as e:
        note('EXC-'+which+'-'+type(e).__name__,(seed,traceback.format_exc().splitlines()[-3:]))
for k,v in issues.items(): print(k,str(v)[:600])
print('kinds',len(issues))
