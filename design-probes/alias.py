import warnings, copy, pickle, itertools, traceback
warnings.simplefilter('ignore')
import numpy as np, dimod
from dimod import *
def snapm(m):
    if isinstance(m,CQM):
        return (snapm(m.objective),tuple((repr(l),c.sense.value,float(c.rhs),snapm(c.lhs),c.lhs.weight()) for l,c in m.constraints.items()),tuple((repr(v),m.vartype(v).name,float(m.lower_bound(v)),float(m.upper_bound(v))) for v in m.variables))
    return (tuple((repr(v),float(b)) for v,b in m.iter_linear()),tuple(sorted((tuple(sorted((repr(u),repr(v)))),float(b)) for u,v,b in m.iter_quadratic())),float(m.offset))
def snaps(s): return (s.record.tobytes(), tuple(map(repr,s.variables)), repr(sorted(s.info.items(),key=repr)), s.vartype.name)
bad=[]
def mut_model(m):
    v=list(m.variables)[0]
    tgt = m.objective if isinstance(m,CQM) else m
    tgt.add_linear(v,5); 
    if isinstance(m,CQM): m.relabel_variables({v:'ZZ'}); m.remove_constraint(list(m.constraints)[0]) if len(m.constraints) else None
    else:
        m.relabel_variables({v:'ZZ'}); m.offset+=1
        try: m.scale(2)
        except Exception: pass
def check_models(name, a, make):
    for side in (0,1):
        a0=copy.deepcopy(a) if not isinstance(a,(BQM,)) else a.copy(deep=True)
        sa=snapm(a0); b=make(a0)
        if snapm(a0)!=sa: bad.append((name,'receiver changed by call'))
        sb=snapm(b)
        try:
            mut_model(a0 if side==0 else b)
        except Exception as e: bad.append((name,'mut exc',repr(e)))
        if side==0 and snapm(b)!=sb: bad.append((name,'edit of original visible in copy'))
        if side==1 and snapm(a0)!=sa: bad.append((name,'edit of copy visible in original'))
x,y,z=Binaries('xyz'); s,t=Spins('st'); i=Integer('i',upper_bound=4)
for dt in (np.float64,np.float32,object):
    b=BQM({'a':1,'b':2,'c':3},{('a','b'):1,('b','c'):-1},0.5,'SPIN',dtype=dt)
    check_models(f'bqm.copy[{dt.__name__}]',b,lambda m:m.copy())
    check_models(f'bqm.deepcopy[{dt.__name__}]',b,lambda m:copy.deepcopy(m))
    check_models(f'bqm.pickle[{dt.__name__}]',b,lambda m:pickle.loads(pickle.dumps(m)))
    check_models(f'BQM(bqm)[{dt.__name__}]',b,lambda m:BQM(m))
    check_models(f'bqm.relabel(inplace=False)[{dt.__name__}]',b,lambda m:m.relabel_variables({'a':'q'},inplace=False))
    check_models(f'bqm.relabel_ints(inplace=False)[{dt.__name__}]',b,lambda m:m.relabel_variables_as_integers(inplace=False)[0])
    check_models(f'bqm.change_vartype(inplace=False)[{dt.__name__}]',b,lambda m:m.change_vartype('BINARY',inplace=False))
    check_models(f'bqm.change_vartype(same,inplace=False)[{dt.__name__}]',b,lambda m:m.change_vartype('SPIN',inplace=False))
    check_models(f'bqm+0[{dt.__name__}]',b,lambda m:m+0)
    check_models(f'bqm*1[{dt.__name__}]',b,lambda m:m*1)
    check_models(f'-bqm[{dt.__name__}]',b,lambda m:-m)
    check_models(f'+bqm[{dt.__name__}]',b,lambda m:+m)
    check_models(f'bqm-0[{dt.__name__}]',b,lambda m:m-0)
    check_models(f'bqm/1[{dt.__name__}]',b,lambda m:m/1)
    check_models(f'bqm+bqm2[{dt.__name__}]',b,lambda m:m+BQM({'d':1},{},0,'SPIN'))
    check_models(f'bqm.spin.copy[{dt.__name__}]',b,lambda m:m.binary.copy())
    check_models(f'QM.from_bqm[{dt.__name__}]',b,lambda m:QM.from_bqm(m))
    check_models(f'as_bqm(copy=True)[{dt.__name__}]',b,lambda m:dimod.as_bqm(m,copy=True))
qm=3*i*i+2*i*x-s+1.5
check_models('qm.copy',qm,lambda m:m.copy()); check_models('qm.deepcopy',qm,lambda m:copy.deepcopy(m))
check_models('qm.relabel(inplace=False)',qm,lambda m:m.relabel_variables({'i':'q'},inplace=False))
check_models('qm.spin_to_binary(inplace=False)',qm,lambda m:m.spin_to_binary(inplace=False))
check_models('qm+0',qm,lambda m:m+0); check_models('qm*1',qm,lambda m:m*1); check_models('-qm',qm,lambda m:-m)
check_models('qm.relabel_ints(inplace=False)',qm,lambda m:m.relabel_variables_as_integers(inplace=False)[0])
def mkcqm():
    c=CQM(); c.set_objective(qm); c.add_constraint(i+x<=3,label='c1'); c.add_constraint(x*s>=0,label='c2'); return c
c=mkcqm()
check_models('cqm.deepcopy',c,lambda m:copy.deepcopy(m))
check_models('cqm.relabel(inplace=False)',c,lambda m:m.relabel_variables({'i':'q'},inplace=False))
check_models('cqm.spin_to_binary(inplace=False)',c,lambda m:m.spin_to_binary(inplace=False))
check_models('cqm.fix_variables(inplace=False)',c,lambda m:m.fix_variables({'x':1},inplace=False))
check_models('CQM.from_qm',qm,lambda m:CQM.from_quadratic_model(m))
# add_constraint copy=True: later edits of model invisible
for cp in (True,):
    c=CQM(); m=BQM({'a':1,'b':1},{},0,'BINARY'); c.add_constraint_from_model(m,'<=',1,label='k',copy=cp)
    before=snapm(c); m.add_linear('a',5); m.add_variable('new',1)
    if snapm(c)!=before: bad.append(('add_constraint copy=True','edit of source visible'))
    sm=snapm(m); c.constraints['k'].lhs.add_linear('a',3)
    if snapm(m)!=sm: bad.append(('add_constraint copy=True','edit of cqm visible in source'))
c=CQM(); m=x+y; c.set_objective(m); before=snapm(c); m.add_linear('x',5)
if snapm(c)!=before: bad.append(('set_objective','edit of source visible'))
# sample sets
def mkss(): return SampleSet.from_samples(([[1,0,1],[0,1,1],[1,1,0],[1,0,1]],'abc'),'BINARY',energy=[2,1,3,2],num_occurrences=[1,2,1,1],info={'n':{'k':[1,2]}},extra=[5,6,7,8])
def mut_ss(s):
    if len(s):
        s.record.sample[:]=1-s.record.sample; s.record.energy[:]=-9; s.record.num_occurrences[:]=7
    s.variables._relabel({list(s.variables)[0]:'QQ'}) if len(s.variables) else None
    s.info['new']=1
    if 'n' in s.info: s.info['n']['k'].append(99)
ops={'copy':lambda s:s.copy(),'deepcopy':lambda s:copy.deepcopy(s),'pickle':lambda s:pickle.loads(pickle.dumps(s)),
 'slice(2)':lambda s:s.slice(2),'slice(2,None)':lambda s:s.slice(2,sorted_by=None),'slice()':lambda s:s.slice(sorted_by=None),'slice(None,None,2,None)':lambda s:s.slice(None,None,2,sorted_by=None),'truncate(2)':lambda s:s.truncate(2),'truncate(2,None)':lambda s:s.truncate(2,sorted_by=None),
 'lowest':lambda s:s.lowest(),'filter':lambda s:s.filter(lambda d:True),'aggregate':lambda s:s.aggregate(),
 'relabel(False)':lambda s:s.relabel_variables({'a':'z'},inplace=False),'change_vartype(False)':lambda s:s.change_vartype('SPIN',inplace=False),'change_vartype(same,False)':lambda s:s.change_vartype('BINARY',inplace=False),
 'concatenate':lambda s:dimod.concatenate([s,s]),'concatenate1':lambda s:dimod.concatenate([s]),'keep':lambda s:dimod.keep_variables(s,['a','b']),'keep_all':lambda s:dimod.keep_variables(s,['a','b','c']),'drop':lambda s:dimod.drop_variables(s,['c']),'drop0':lambda s:dimod.drop_variables(s,[]),'append_vars':lambda s:dimod.append_variables(s,{'d':1}),'append_data':lambda s:dimod.append_data_vectors(s,f2=[1,2,3,4]),
 'from_samples(ss)':lambda s:SampleSet.from_samples(s,'BINARY',energy=s.record.energy), 'from_samples_bqm(ss)':lambda s:SampleSet.from_samples_bqm(s,BQM({'a':1,'b':1,'c':1},{},0,'BINARY'))}
for name,f in ops.items():
    for side in (0,1):
        a=mkss(); sa=snaps(a)
        try: b=f(a)
        except Exception as e: bad.append((name,'EXC',repr(e))); break
        if snaps(a)!=sa: bad.append(('ss.'+name,'receiver changed by call'))
        sb=snaps(b)
        mut_ss(a if side==0 else b)
        if side==0 and snaps(b)!=sb: bad.append(('ss.'+name,'edit of original visible in result', np.shares_memory(a.record,b.record)))
        if side==1 and snaps(a)!=sa: bad.append(('ss.'+name,'edit of result visible in original', np.shares_memory(a.record,b.record)))
from dimod.variables import Variables
v=Variables(['a',1,'c']); 
for name,f in {'copy':lambda v:v.copy(),'copy.copy':copy.copy,'deepcopy':copy.deepcopy,'pickle':lambda v:pickle.loads(pickle.dumps(v)),'Variables(v)':Variables,'slice':lambda v:v[:]}.items():
    w=f(v); w._append('zz'); 
    if 'zz' in v: bad.append(('Variables.'+name,'alias'))
    v._relabel({'a':'b'}); 
    if 'b' in w: bad.append(('Variables.'+name,'alias2'))
    v._relabel({'b':'a'})
for b in bad: print(b)
print('total',len(bad))
