import random, sys, warnings, traceback, itertools
warnings.simplefilter('ignore')
import numpy as np, dimod
from dimod import *
issues={}
def note(k,d):
    if k not in issues: issues[k]=d
LAB=[0,1,2,'a','b','z',('t',1),5]
def q(r): return r.randint(-8,8)/4
def rbqm(r):
    vt=r.choice(['SPIN','BINARY']); b=BQM(vt, dtype=r.choice([np.float64,np.float32,object]))
    labs=r.sample(LAB,r.randint(0,4))
    for l in labs: b.add_linear(l,q(r))
    for _ in range(r.randint(0,4)):
        if len(labs)>=2:
            u,v=r.sample(labs,2); b.add_quadratic(u,v,q(r))
    b.offset=q(r); return b
def check_ss(tag, ss, bqm, extra_ok=()):
    vs=set(ss.variables); bv=set(bqm.variables)
    if not bv<=vs or (vs-bv)-set(extra_ok): note(tag+'-vars',(list(ss.variables),list(bqm.variables))); return
    if ss.vartype is not bqm.vartype: note(tag+'-vartype',()); 
    dom={-1,1} if bqm.vartype is dimod.SPIN else {0,1}
    for s,e in ss.data(['sample','energy']):
        if not set(s.values())<=dom: note(tag+'-domain',(dict(s),)); return
        if abs(float(bqm.energy({v:s[v] for v in bqm.variables}))-float(e))>1e-6: note(tag+'-energy',(dict(s),float(e),float(bqm.energy({v:s[v] for v in bqm.variables})),str(bqm))); return
for seed in range(int(sys.argv[1]),int(sys.argv[2])):
    r=random.Random(seed); random.seed(seed)
    b=rbqm(r)
    try:
        which=r.choice(['exact','exact_ising','exact_qubo','random','sa','identity','null','truncate','tracking','structure','sa_ising','sa_qubo'])
        if which=='exact':
            ss=ExactSolver().sample(b); check_ss('exact',ss,b)
            if len(ss)!=(2**len(b.variables) if len(b.variables) else 0): note('exact-count',(seed,len(ss)))
            if len(ss) and len({tuple(x) for x in ss.record.sample})!=len(ss): note('exact-dup',(seed,))
        elif which in('exact_ising','sa_ising'):
            h,J,off=b.to_ising(); S=ExactSolver() if which=='exact_ising' else SimulatedAnnealingSampler()
            ss=S.sample_ising(h,J, **({} if which=='exact_ising' else dict(num_reads=3,num_sweeps=5)))
            ref=BQM.from_ising(h,J); check_ss(which,ss,ref)
        elif which in('exact_qubo','sa_qubo'):
            Q,off=b.to_qubo(); S=ExactSolver() if which=='exact_qubo' else SimulatedAnnealingSampler()
            ss=S.sample_qubo(Q, **({} if which=='exact_qubo' else dict(num_reads=3,num_sweeps=5)))
            ref=BQM.from_qubo(Q); check_ss(which,ss,ref)
        elif which=='random':
            ss=RandomSampler().sample(b,num_reads=5,seed=seed); check_ss('random',ss,b)
        elif which=='sa':
            ss=SimulatedAnnealingSampler().sample(b,num_reads=4,num_sweeps=10); check_ss('sa',ss,b)
        elif which=='identity':
            vs=list(b.variables); dom=[-1,1] if b.vartype is dimod.SPIN else [0,1]
            init=[{v:r.choice(dom) for v in (vs if r.random()<.5 else r.sample(vs,len(vs)))} for _ in range(r.randint(1,3))]
            ss=IdentitySampler().sample(b, initial_states=init, num_reads=r.choice([None,2,5]), initial_states_generator=r.choice(['tile','random']), seed=1)
            check_ss('identity',ss,b)
            # first rows should equal given initial states
            k=min(len(init),len(ss))
            for i in range(k):
                got=dict(zip(ss.variables, ss.record.sample[i]))
                if any(got[v]!=init[i][v] for v in vs): note('identity-rows',(seed,init,ss.record.sample.tolist(),list(ss.variables))); break
        elif which=='null':
            ss=NullSampler().sample(b); 
            if len(ss)!=0 or set(ss.variables)!=set(b.variables): note('null',(seed,))
        elif which=='truncate':
            n=r.randint(1,5); agg=r.random()<.5
            ss=TruncateComposite(ExactSolver(),n,aggregate=agg).sample(b); check_ss('truncate',ss,b)
            full=ExactSolver().sample(b)
            if len(ss)!=min(n,len(full)): note('truncate-n',(seed,))
            if len(ss) and sorted(ss.record.energy.tolist())!=sorted(full.record.energy.tolist())[:len(ss)]: note('truncate-lowest',(seed,))
        elif which=='tracking':
            t=TrackingComposite(ExactSolver()); ss=t.sample(b); check_ss('tracking',ss,b)
            if not t.input['bqm'].is_equal(b) if hasattr(t.input['bqm'],'is_equal') else False: note('tracking-input',(seed,))
        elif which=='structure':
            vs=list(b.variables); ss=StructureComposite(ExactSolver(), vs, [(u,v) for u,v,_ in b.iter_quadratic()]).sample(b); check_ss('structure',ss,b)
    except Exception as e:
        note('EXC-'+which+'-'+type(e).__name__,(seed,traceback.format_exc().splitlines()[-3:]))
for k,v in issues.items(): print(k,str(v)[:600])
print('kinds',len(issues))
