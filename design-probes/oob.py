import warnings; warnings.simplefilter('ignore')
import dimod
from dimod import QM, Integer, Binary, Spin
qm = QM()
for k in range(40): qm.add_variable('INTEGER', f'v{k}', lower_bound=0, upper_bound=7)
data = qm.to_file().read()
hdr = data.index(b'VTYP')
cut = hdr + 8 + 17*1   # one record only
try:
    QM.from_file(data[:cut])
except Exception as e:
    print('exc', type(e).__name__, e)
